(* The specification's parser and set semantics on the grammar of Proofs/GroupGrammar.v, and the
   end-to-end theorem: for every pattern text printed from a grammar tree (literals, alternation,
   capturing and non-capturing groups, nested to any depth), both dialects, every flag string
   without q and x, the model of Regex::new (through the hook constructor: no search shortcuts)
   followed by is_match returns the verdict of the specification - its parser on the same text,
   its flag reader on the same flag string, its set semantics. *)
From RX Require Import Base.Prelude Base.InvList Tables.Consts Model.Case Model.Op Model.Engine Model.Matcher
     Model.Compiler Model.Api Spec.Syntax Spec.Sem Spec.Parse Proofs.EngineFacts Proofs.MatcherFacts
     Proofs.EngineCorollaries Proofs.LeafFacts Proofs.SmallFacts Proofs.LowerFacts Spec.CharSet Proofs.QuantLaws Proofs.OrderFacts
     Proofs.PlainPattern Proofs.PlainSpec Proofs.EscFacts Proofs.GroupGrammar Proofs.NullableFacts Proofs.ScanFacts Proofs.FrameFacts Proofs.FragmentApi.

(* ---------------------------------------------------------------- one-step unfoldings *)
Lemma p_more_S_bar f xpath st t acc : p_more (S f) xpath st (124%N :: t) acc
  = pbind (p_branch f xpath st t []) (fun '(b, st1) rest => p_more f xpath st1 rest (b :: acc)).
Proof. reflexivity. Qed.
Lemma p_more_S_stop f xpath st s acc : term_a s -> p_more (S f) xpath st s acc = PV (acc, st) s.
Proof. intros [->|(t & ->)]; reflexivity. Qed.

Lemma p_atom_nc f st t2 : p_atom (S f) true st (40%N :: 63%N :: 58%N :: t2)
  = pbind (p_regexp f true st t2) (fun '(r, st1) rest =>
      match rest with 41%N :: rest' => PV (RNc r, st1) rest' | _ => PI end).
Proof. reflexivity. Qed.

Lemma p_atom_cap f xpath st t : match t with c :: _ => c <> 63%N | [] => True end ->
  p_atom (S f) xpath st (40%N :: t)
  = pbind (p_regexp f xpath {| opened := S (opened st); closed := closed st |} t) (fun '(r, st1) rest =>
      match rest with
      | 41%N :: rest' => PV (RGroup (S (opened st)) r, {| opened := opened st1; closed := S (opened st) :: closed st1 |}) rest'
      | _ => PI
      end).
Proof.
  intros H. destruct t as [|c t']; [reflexivity|]. destruct c as [|p]; [reflexivity|].
  do 6 (try (destruct p as [p|p|]); try reflexivity). exfalso. apply H. reflexivity.
Qed.

Lemma head_fine_quant l : head_fine l -> p_quant l = PV None l.
Proof.
  destruct l as [|c t]; [reflexivity|]. intros H. destruct (head_fine_nq c t H) as (N1 & N2 & N3 & N4).
  apply p_quant_none; intros ->; discriminate.
Qed.

Lemma head_fine_app cs rest : forallb ordinary cs = true -> head_fine rest -> head_fine (cs ++ rest).
Proof. destruct cs as [|c t]; cbn [app forallb]; auto. intros H _. apply andb_true_iff in H as [Hc _]. cbn. auto. Qed.

(* ---------------------------------------------------------------- a run of ordinary characters *)
Lemma p_branch_run xpath : forall cs fuel st rest acc, forallb ordinary cs = true -> head_fine rest ->
  length cs + 2 <= fuel ->
  p_branch fuel xpath st (cs ++ rest) acc = p_branch (fuel - length cs) xpath st rest (rev (map RChar cs) ++ acc).
Proof.
  induction cs as [|c cs IH]; intros fuel st rest acc Ho Hh Hf.
  - cbn [app length map rev]. rewrite Nat.sub_0_r. reflexivity.
  - cbn [forallb] in Ho. apply andb_true_iff in Ho as [Oc Ho]. cbn [length] in Hf.
    destruct fuel as [|[|[|f]]]; try lia.
    destruct (ordinary_neq c Oc) as (_ & _ & _ & _ & _ & _ & _ & _ & _ & _ & _ & _ & A13 & A14).
    cbn [app]. rewrite p_branch_S, A13, A14. cbn [orb].
    rewrite p_piece_S, (p_atom_S xpath st f c (cs ++ rest) Oc). cbn [pbind].
    rewrite (head_fine_quant (cs ++ rest)) by (apply head_fine_app; auto). cbn [pbind].
    rewrite IH by (auto; lia). cbn [length map rev]. rewrite <- app_assoc. cbn [app].
    replace (S (S (S f)) - S (length cs)) with (S (S f) - length cs) by lia. reflexivity.
Qed.

(* ---------------------------------------------------------------- bounds of the denotation *)
Section DB.
Variable input : list N.
Variable ci multi single : bool.
Let n := length input.

Lemma D_le xpath : (forall b, ok_b xpath b = true -> forall p q, p <= n -> In q (Db input ci multi single b p) -> q <= n)
  /\ (forall a, ok_a xpath a = true -> forall p q, p <= n -> In q (Da input ci multi single a p) -> q <= n).
Proof.
  apply branch_alt_ind.
  - intros cs _ p q Hp H. cbn [Db] in H. apply lit_le in H. tauto.
  - intros cs cap a IHa b IHb Hok p q Hp H. cbn [ok_b] in Hok. apply andb_true_iff in Hok as [Hok Okb].
    apply andb_true_iff in Hok as [_ Oka]. cbn [Db] in H. apply in_flat_map in H as (m & Hm & H).
    apply in_flat_map in Hm as (m1 & Hm1 & Hm). apply lit_le in Hm1. eapply (IHb Okb); [|exact H]. eapply (IHa Oka); [|exact Hm]. tauto.
  - intros cs c k rel b IHb Hok p q Hp H. cbn [ok_b] in Hok. apply andb_true_iff in Hok as [Hok Okb].
    apply andb_true_iff in Hok as [_ Hk]. cbn [Db] in H. apply in_flat_map in H as (m & Hm & H).
    apply in_flat_map in Hm as (m1 & Hm1 & Hm). apply lit_le in Hm1. eapply (IHb Okb); [|exact H].
    eapply (Dq_le input ci multi single); [exact Hk| |exact Hm]. tauto.
  - intros cs eol b IHb Hok p q Hp H. cbn [ok_b] in Hok. apply andb_true_iff in Hok as [_ Okb].
    cbn [Db] in H. apply in_flat_map in H as (m & Hm & H).
    apply in_flat_map in Hm as (m1 & Hm1 & Hm). apply lit_le in Hm1. eapply (IHb Okb); [|exact H].
    eapply (Dan_le input ci multi single); [|exact Hm]. tauto.
  - intros cs da q0 b IHb Hok p q Hp H. cbn [ok_b] in Hok. apply andb_true_iff in Hok as [Hok Okb].
    apply andb_true_iff in Hok as [_ Hkq]. cbn [Db] in H. apply in_flat_map in H as (m & Hm & H).
    apply in_flat_map in Hm as (m1 & Hm1 & Hm). apply lit_le in Hm1. eapply (IHb Okb); [|exact H].
    eapply (Dd_le input ci multi single xpath); [exact Hkq| |exact Hm]. tauto.
  - intros b IHb Hok p q Hp H. exact (IHb Hok p q Hp H).
  - intros b IHb a IHa Hok p q Hp H. cbn [ok_a] in Hok. apply andb_true_iff in Hok as [Okb Oka].
    cbn [Da] in H. apply in_app_iff in H as [H|H]; eauto.
Qed.
End DB.

(* ---------------------------------------------------------------- the specification's parser *)
Section SPc.
Variable xpath : bool.
Variable input : list N.
Variable fl : sflags.
Let ci := s_i fl.
Let multi := s_m fl.
Let single := s_s fl.
Let n := length input.
Let E (r : re) (p : nat) : list nat := ends fl input r p.
Let SE (rs : list re) (A : list nat) : list nat := seq_ends input fl rs A.
Hypothesis Hfit : (N.of_nat n < umax)%N.
Hypothesis Hvalid : valid_in input.
(* in priority order *)
Let O (r : re) (m : nat) (e : env) : list nat := map fst (Sem.R fl input r m e).
Let OS (rs : list re) (m : nat) (e : env) : list nat := map fst (seqR input fl rs m e).

Lemma seqR_app l1 l2 : forall m e, seqR input fl (l1 ++ l2) m e
  = flat_map (fun je => seqR input fl l2 (fst je) (snd je)) (seqR input fl l1 m e).
Proof.
  induction l1 as [|x t IH]; intros m e.
  - cbn [app seqR flat_map fst snd]. rewrite app_nil_r. reflexivity.
  - cbn [app seqR]. rewrite flat_map_assoc. apply flat_map_ext. intros je. apply IH.
Qed.
Lemma OS_app l1 l2 (D1 D2 : nat -> list nat) :
  (forall m e, m <= n -> OS l1 m e = D1 m) -> (forall m e, m <= n -> OS l2 m e = D2 m) ->
  (forall m q, m <= n -> In q (D1 m) -> q <= n) ->
  forall m e, m <= n -> OS (l1 ++ l2) m e = flat_map D2 (D1 m).
Proof.
  intros H1 H2 Hle m e Hm. unfold OS. rewrite seqR_app.
  rewrite (map_fst_flat_map _ D2).
  - fold (OS l1 m e). rewrite (H1 m e Hm). reflexivity.
  - intros je Hje. apply (H2 (fst je) (snd je)). apply (Hle m); [exact Hm|].
    rewrite <- (H1 m e Hm). unfold OS. apply in_map. exact Hje.
Qed.
Lemma OS_one r m e : OS [r] m e = O r m e.
Proof.
  unfold OS, O. cbn [seqR]. rewrite (map_fst_flat_map _ (fun q => [q])); [apply fm_single|].
  intros je _. reflexivity.
Qed.
Lemma OS_run cs m e : m <= n -> OS (map RChar cs) m e = lit input ci cs m.
Proof. intros Hm. exact (atom_R input ci fl eq_refl cs m e Hm). Qed.
Lemma OS_seq rs m e : O (RSeq rs) m e = OS rs m e.
Proof. reflexivity. Qed.
Lemma O_alt rs m e : O (RAlt rs) m e = flat_map (fun r => O r m e) rs.
Proof.
  unfold O. change (Sem.R fl input (RAlt rs) m e) with
    ((fix go (l : list re) : list (nat * env) := match l with [] => [] | x :: t => Sem.R fl input x m e ++ go t end) rs).
  induction rs as [|x t IH]; [reflexivity|]. cbn [flat_map]. rewrite map_app, IH. reflexivity.
Qed.
Lemma O_group g r m e : O (RGroup g r) m e = O r m e.
Proof. unfold O. cbn [Sem.R]. rewrite map_map. apply map_ext. intros je. reflexivity. Qed.
(* leaves whose ordered results do not depend on the captures so far *)
Lemma quantR_char_env c mn mx g : forall fuel k i e e',
  map fst (quantR (Sem.R fl input (RChar c)) mn mx g fuel k i e)
  = map fst (quantR (Sem.R fl input (RChar c)) mn mx g fuel k i e').
Proof.
  induction fuel as [|f IH]; intros k i e e'; [reflexivity|]. cbn [quantR].
  assert (Hm : map fst (if mx_allows k mx then
                 flat_map (fun je : nat * env => let '(j, e'0) := je in
                             if Nat.eqb j i then [(j, e'0)] else quantR (Sem.R fl input (RChar c)) mn mx g f (S k) j e'0)
                          (Sem.R fl input (RChar c) i e) else [])
             = map fst (if mx_allows k mx then
                 flat_map (fun je : nat * env => let '(j, e'0) := je in
                             if Nat.eqb j i then [(j, e'0)] else quantR (Sem.R fl input (RChar c)) mn mx g f (S k) j e'0)
                          (Sem.R fl input (RChar c) i e') else [])).
  { destruct (mx_allows k mx); [|reflexivity]. cbn [Sem.R]. unfold one_charR.
    destruct (char_at input i) as [x|]; [|reflexivity]. destruct (lit_eq (s_i fl) c x); [|reflexivity].
    cbn [flat_map]. rewrite !app_nil_r. destruct (Nat.eqb (S i) i); [reflexivity|]. apply IH. }
  destruct g; rewrite !map_app; rewrite Hm; destruct (N.leb mn (N.of_nat k)); reflexivity.
Qed.
Lemma O_quant_char c k rel m e : O (RQuant (RChar c) (qmin k) (qmaxo k) (negb rel)) m e = DqO input ci multi single c k rel m.
Proof. unfold O, DqO. cbn [Sem.R]. apply quantR_char_env. Qed.
Lemma O_anchor (eol : bool) m e : O (if eol then REol else RBol) m e = DanO input ci multi single eol m.
Proof.
  unfold O, DanO. destruct eol; cbn [Sem.R].
  - change (eol_at (fl_of ci multi single) input m) with (eol_at fl input m). destruct (eol_at fl input m); reflexivity.
  - change (bol_at (fl_of ci multi single) input m) with (bol_at fl input m). destruct (bol_at fl input m); reflexivity.
Qed.

Lemma SE_app l1 l2 A : SE (l1 ++ l2) A = SE l2 (SE l1 A).
Proof.
  unfold SE. revert A. induction l1 as [|x t IH]; intros A; [reflexivity|].
  cbn [app]. rewrite !seq_ends_cons. apply IH.
Qed.
Lemma SE_in rs A q : In q (SE rs A) <-> exists m, In m A /\ In q (SE rs [m]).
Proof.
  unfold SE. rewrite seq_ends_set. split.
  - intros (p & Hp & H). exists p. split; [exact Hp|]. apply seq_ends_set. exists p. split; [left; reflexivity|exact H].
  - intros (m & Hm & H). apply seq_ends_set in H. destruct H as (p & [<-|[]] & H). eauto.
Qed.
Lemma SE_run cs m q : m <= n -> (In q (SE (map RChar cs) [m]) <-> In q (lit input ci cs m)).
Proof.
  clear Hfit. intros Hm. unfold SE. rewrite (atom_ends input ci fl eq_refl cs m q Hm). unfold lit. fold n.
  destruct (Nat.ltb n (m + length cs)) eqn:L.
  - apply Nat.ltb_lt in L. split; [intros (H & _); lia|intros []].
  - apply Nat.ltb_ge in L. destruct (starts_with (ceq ci) cs (skipn m input)).
    + split; [intros (_ & _ & ->); left; reflexivity|intros [<-|[]]; auto].
    + split; [intros (_ & H & _); discriminate|intros []].
Qed.
Lemma SE_one r m q : In q (SE [r] [m]) <-> In q (E r m).
Proof.
  unfold SE, E. rewrite seq_ends_cons. cbn [seq_ends]. rewrite In_step_set.
  split; [intros (p & [<-|[]] & H); exact H|intros H; exists m; cbn; auto].
Qed.

Definition alt_re (bs : list re) : re := match bs with [x] => x | _ => RAlt (rev bs) end.
Lemma alt_re_sem bs p q : bs <> [] -> (In q (E (alt_re bs) p) <-> exists x, In x bs /\ In q (E x p)).
Proof.
  intros Hne. destruct bs as [|x [|y t]]; [contradiction| |].
  - cbn [alt_re]. split; [intros H; exists x; cbn; auto|intros (x' & [<-|[]] & H); exact H].
  - unfold E, alt_re. rewrite ends_alt. split; intros (z & Hz & Hq); exists z; (split; [|exact Hq]).
    + apply in_rev. exact Hz.
    + apply in_rev in Hz. exact Hz.
Qed.
Lemma alt_re_O bs p e : bs <> [] -> O (alt_re bs) p e = flat_map (fun x => O x p e) (rev bs).
Proof.
  intros Hne. destruct bs as [|x [|y t]]; [contradiction| |].
  - cbn [alt_re rev app flat_map]. rewrite app_nil_r. reflexivity.
  - unfold alt_re. apply O_alt.
Qed.

(* a quantified character *)
Lemma sdigits_run : forall ds x t acc seen, forallb is_digit ds = true -> is_digit x = false ->
  (ds <> [] \/ seen = true) ->
  Parse.digits (ds ++ x :: t) acc seen = Some (fold_left (fun a d => a * 10 + (d - 48))%N ds acc, x :: t).
Proof.
  induction ds as [|d ds IH]; intros x t acc seen Hd Hx Hne.
  - destruct Hne as [Hne| ->]; [contradiction|]. cbn [app Parse.digits fold_left]. rewrite Hx. reflexivity.
  - cbn [forallb] in Hd. apply andb_true_iff in Hd as [Hd Ht]. cbn [app Parse.digits fold_left]. rewrite Hd.
    apply IH; auto.
Qed.
Lemma p_quant_sym k t : okq k = true -> p_quant (qsym k :: qtl k ++ t) = PV (Some (qmin k, qmaxo k)) t.
Proof.
  destruct k as [| | |ds m]; intros Hk; try reflexivity.
  assert (Hk' := Hk). cbn [okq] in Hk'. apply andb_true_iff in Hk' as [Hk' _]. apply andb_true_iff in Hk' as [Hk' _].
  apply andb_true_iff in Hk' as [D1 Hm].
  destruct (digs_split ds D1) as (d & dt & Eds & Dd & Dall). pose proof (digs_bound ds D1) as B1.
  assert (Ne : ds <> []) by (rewrite Eds; discriminate).
  cbn [qsym qtl p_quant]. destruct m as [| |d2]; rewrite <- !app_assoc; cbn [app].
  - rewrite (sdigits_run ds 125%N t 0%N false Dall eq_refl (or_introl Ne)). fold (dec ds).
    replace (umax <? dec ds)%N with false by (symmetry; apply N.ltb_ge; lia). reflexivity.
  - rewrite (sdigits_run ds 44%N _ 0%N false Dall eq_refl (or_introl Ne)). fold (dec ds).
    replace (umax <? dec ds)%N with false by (symmetry; apply N.ltb_ge; lia). reflexivity.
  - apply andb_true_iff in Hm as [D2 Le]. apply N.leb_le in Le.
    destruct (digs_split d2 D2) as (e & et & Ed2 & De & Dall2). pose proof (digs_bound d2 D2) as B2.
    assert (Ne2 : d2 <> []) by (rewrite Ed2; discriminate).
    rewrite (sdigits_run ds 44%N _ 0%N false Dall eq_refl (or_introl Ne)). fold (dec ds).
    assert (E125 : (e =? 125)%N = false).
    { unfold is_digit in De. apply andb_true_iff in De as [_ De]. apply N.leb_le in De. apply N.eqb_neq. lia. }
    assert (Hd2 : d2 ++ 125%N :: t = e :: et ++ 125%N :: t) by (rewrite Ed2; reflexivity).
    assert (M : forall (A : Type) (X : list N -> A) (Y : A), match d2 ++ 125%N :: t with 125%N :: t2 => X t2 | _ => Y end = Y).
    { intros A X Y. rewrite Hd2. destruct e as [|pe]; [reflexivity|].
      do 7 (try (destruct pe as [pe|pe|]); try reflexivity). discriminate. }
    rewrite M.
    rewrite (sdigits_run d2 125%N t 0%N false Dall2 eq_refl (or_introl Ne2)). fold (dec d2).
    replace (dec d2 <? dec ds)%N with false by (symmetry; apply N.ltb_ge; lia).
    replace (umax <? dec d2)%N with false by (symmetry; apply N.ltb_ge; lia). reflexivity.
Qed.
Lemma not_qmark_match {A} (l : list N) (X : list N -> A) (Y : A) : head_fine l ->
  match l with 63%N :: r3 => X r3 | _ => Y end = Y.
Proof.
  destruct l as [|c t]; [reflexivity|]. intros H. destruct (head_fine_nq c t H) as (N1 & _).
  destruct c as [|p]; [reflexivity|].
  do 6 (try (destruct p as [p|p|]); try reflexivity). discriminate.
Qed.
Lemma Dq_flags c k rel m : E (RQuant (RChar c) (qmin k) (qmaxo k) (negb rel)) m = Dq input ci multi single c k rel m.
Proof. reflexivity. Qed.

(* an anchor *)
Lemma p_atom_anchor f st (eol : bool) t : p_atom (S f) true st ((if eol then 36%N else 94%N) :: t)
  = PV ((if eol then REol else RBol), st) t.
Proof. destruct eol; reflexivity. Qed.
Lemma Dan_flags (eol : bool) m : E (if eol then REol else RBol) m = Dan input ci multi single eol m.
Proof. destruct eol; reflexivity. Qed.

(* a dot or a class escape *)
Lemma p_atom_da f st da t : okat da = true -> p_atom (S f) xpath st (datext da ++ t) = PV (da_re da, st) t.
Proof.
  intros Ha. destruct da as [|e]; cbn [datext app da_re]; [reflexivity|].
  destruct (okesc_cases e Ha) as [->|[->|[->|[->|[->|[->|[->|[->|[->| ->]]]]]]]]]; reflexivity.
Qed.
Lemma Dd_flags da q m : E (dot_re da q) m = Dd input ci multi single da q m.
Proof. destruct q as [[k rel]|]; destruct da; reflexivity. Qed.
Lemma da_leaf da : exists pr, forall i e, Sem.R fl input (da_re da) i e = one_charR input pr i e.
Proof. destruct da as [|x]; cbn [da_re]; eexists; intros i e; reflexivity. Qed.
Lemma quantR_leaf_env r0 pr (Hr : forall i e, Sem.R fl input r0 i e = one_charR input pr i e) mn mx g : forall fuel k i e e',
  map fst (quantR (Sem.R fl input r0) mn mx g fuel k i e)
  = map fst (quantR (Sem.R fl input r0) mn mx g fuel k i e').
Proof.
  induction fuel as [|f IH]; intros k i e e'; [reflexivity|]. cbn [quantR].
  assert (Hm : map fst (if mx_allows k mx then
                 flat_map (fun je : nat * env => let '(j, e'0) := je in
                             if Nat.eqb j i then [(j, e'0)] else quantR (Sem.R fl input r0) mn mx g f (S k) j e'0)
                          (Sem.R fl input r0 i e) else [])
             = map fst (if mx_allows k mx then
                 flat_map (fun je : nat * env => let '(j, e'0) := je in
                             if Nat.eqb j i then [(j, e'0)] else quantR (Sem.R fl input r0) mn mx g f (S k) j e'0)
                          (Sem.R fl input r0 i e') else [])).
  { destruct (mx_allows k mx); [|reflexivity]. rewrite !Hr. unfold one_charR.
    destruct (char_at input i) as [x|]; [|reflexivity]. destruct (pr x); [|reflexivity].
    cbn [flat_map]. rewrite !app_nil_r. destruct (Nat.eqb (S i) i); [reflexivity|]. apply IH. }
  destruct g; rewrite !map_app; rewrite Hm; destruct (N.leb mn (N.of_nat k)); reflexivity.
Qed.
Lemma O_dot da q m e : O (dot_re da q) m e = DdO input ci multi single da q m.
Proof.
  unfold O, DdO. destruct (da_leaf da) as (pr & Hr). destruct q as [[k rel]|]; cbn [dot_re].
  - cbn [Sem.R]. apply (quantR_leaf_env (da_re da) pr Hr).
  - change (Sem.R (fl_of ci multi single) input (da_re da) m []) with (Sem.R fl input (da_re da) m []).
    rewrite !Hr. unfold one_charR. destruct (char_at input m); [|reflexivity]. destruct (pr n0); reflexivity.
Qed.

Definition Q_b (b : branch) : Prop :=
  ok_b xpath b = true -> forall post st acc fuel, term_b post -> 6 * length (show_b b) + 6 <= fuel ->
    exists rs st', p_branch fuel xpath st (show_b b ++ post) acc = PV (RSeq (rev acc ++ rs), st') post
      /\ (forall m q, m <= n -> (In q (SE rs [m]) <-> In q (Db input ci multi single b m)))
      /\ (forall m e, m <= n -> OS rs m e = DbO input ci multi single b m).

Definition Q_a (a : alt) : Prop :=
  ok_a xpath a = true -> forall post st acc f1 f2, term_a post ->
    6 * length (show_a a) + 7 <= f1 -> 6 * length (show_a a) + 7 <= f2 ->
    exists b st1 rest1 bs st', p_branch f1 xpath st (show_a a ++ post) [] = PV (b, st1) rest1
      /\ p_more f2 xpath st1 rest1 (b :: acc) = PV (bs, st') post /\ bs <> []
      /\ (forall p q, p <= n -> ((exists x, In x bs /\ In q (E x p))
                                 <-> (exists x, In x acc /\ In q (E x p)) \/ In q (Da input ci multi single a p)))
      /\ (forall p e, p <= n -> flat_map (fun x => O x p e) (rev bs)
                                 = flat_map (fun x => O x p e) (rev acc) ++ DaO input ci multi single a p).

Theorem spec_parses : (forall b, Q_b b) /\ (forall a, Q_a a).
Proof.
  apply branch_alt_ind.
  - (* BEnd *) intros cs Hok post st acc fuel Ht Hf. cbn [show_b ok_b] in *.
    assert (Hh : head_fine post) by (destruct Ht as [->|(t & [->| ->])]; cbn; auto).
    exists (map RChar cs), st. rewrite (p_branch_run xpath cs fuel st post acc Hok Hh) by lia.
    split.
    + destruct (fuel - length cs) as [|f] eqn:Ef; [lia|]. rewrite p_branch_S.
      assert (Hr : rev (rev (map RChar cs) ++ acc) = rev acc ++ map RChar cs) by (rewrite rev_app_distr, rev_involutive; reflexivity).
      destruct Ht as [->|(t & [->| ->])]; rewrite Hr; reflexivity.
    + split; [intros m q Hm; cbn [Db]; apply SE_run; exact Hm|intros m e Hm; cbn [DbO]; apply OS_run; exact Hm].
  - (* BGrp *) intros cs cap a IHa b' IHb Hok post st acc fuel Ht Hf.
    cbn [ok_b] in Hok. apply andb_true_iff in Hok as [Hok Okb]. apply andb_true_iff in Hok as [Hok Oka].
    apply andb_true_iff in Hok as [Ocs Hcx]. cbn [show_b] in Hf |- *.
    set (opt := if cap then [] else [63%N; 58%N]) in *.
    set (inner := show_a a) in *. set (rest := show_b b') in *.
    assert (Lsh : length (cs ++ 40%N :: opt ++ inner ++ 41%N :: rest) = length cs + 1 + length opt + length inner + 1 + length rest).
    { rewrite !app_length. cbn [length]. rewrite !app_length. cbn [length]. lia. }
    rewrite Lsh in Hf.
    replace ((cs ++ 40%N :: opt ++ inner ++ 41%N :: rest) ++ post) with (cs ++ 40%N :: opt ++ inner ++ 41%N :: rest ++ post)
      by (rewrite <- app_assoc; cbn [app]; rewrite <- !app_assoc; cbn [app]; reflexivity).
    rewrite (p_branch_run xpath cs fuel st _ acc Ocs) by (cbn; auto; lia).
    destruct (fuel - length cs) as [|[|[|f3]]] eqn:Ef; try lia.
    rewrite p_branch_S. change ((40 =? 124)%N || (40 =? 41)%N) with false. cbv iota.
    rewrite p_piece_S.
    (* the group *)
    assert (Hatom : exists g st2, p_atom (S f3) xpath st (40%N :: opt ++ inner ++ 41%N :: rest ++ post) = PV (g, st2) (rest ++ post)
              /\ (forall p q, p <= n -> (In q (E g p) <-> In q (Da input ci multi single a p)))
              /\ (forall p e, p <= n -> O g p e = DaO input ci multi single a p)).
    { destruct cap; subst opt; cbn [app].
      - rewrite p_atom_cap.
        2:{ pose proof (head_fine_a xpath a (41%N :: rest ++ post) Oka ltac:(right; eexists; reflexivity)) as Hh. fold inner in Hh.
            destruct (inner ++ 41%N :: rest ++ post) as [|c2 t2]; [exact I|].
            intros ->. destruct (head_fine_nq _ _ Hh) as (N1 & _). discriminate. }
        destruct f3 as [|f2]; [lia|].
        destruct (IHa Oka (41%N :: rest ++ post) {| opened := S (opened st); closed := closed st |} [] f2 f2
                    ltac:(right; eexists; reflexivity) ltac:(fold inner; lia) ltac:(fold inner; lia))
          as (b1 & st1 & rest1 & bs & st' & E1 & E2 & Nbs & Sem & SemO).
        fold inner in E1. rewrite p_regexp_S, E1. cbn [pbind]. rewrite E2. cbn [pbind]. fold (alt_re bs).
        eexists _, _. split; [reflexivity|]. split.
        { intros p q Hp. change (E (RGroup (S (opened st)) (alt_re bs)) p) with (E (alt_re bs) p).
          rewrite (alt_re_sem bs p q Nbs), (Sem p q Hp). split; [intros [(x & [] & _)|H]; exact H|auto]. }
        intros p e Hp. rewrite O_group, (alt_re_O bs p e Nbs), (SemO p e Hp). reflexivity.
      - cbn [orb] in Hcx. rewrite Hcx. rewrite p_atom_nc.
        destruct f3 as [|f2]; [lia|].
        destruct (IHa Oka (41%N :: rest ++ post) st [] f2 f2
                    ltac:(right; eexists; reflexivity) ltac:(fold inner; lia) ltac:(fold inner; lia))
          as (b1 & st1 & rest1 & bs & st' & E1 & E2 & Nbs & Sem & SemO).
        fold inner in E1. rewrite Hcx in E1, E2. rewrite p_regexp_S, E1. cbn [pbind]. rewrite E2. cbn [pbind]. fold (alt_re bs).
        eexists _, _. split; [reflexivity|]. split.
        { intros p q Hp. change (E (RNc (alt_re bs)) p) with (E (alt_re bs) p).
          rewrite (alt_re_sem bs p q Nbs), (Sem p q Hp). split; [intros [(x & [] & _)|H]; exact H|auto]. }
        intros p e Hp. change (O (RNc (alt_re bs)) p e) with (O (alt_re bs) p e).
        rewrite (alt_re_O bs p e Nbs), (SemO p e Hp). reflexivity. }
    destruct Hatom as (g & st2 & Eatom & Semg & Og). rewrite Eatom. cbn [pbind].
    rewrite (head_fine_quant (rest ++ post)) by (apply (head_fine_b xpath); auto). cbn [pbind].
    destruct (IHb Okb post st2 (g :: rev (map RChar cs) ++ acc) (S (S f3)) Ht ltac:(fold rest; lia)) as (rs & st' & Eb & Semb & Ob).
    fold rest in Eb. rewrite Eb.
    exists (map RChar cs ++ g :: rs), st'. split.
    + f_equal. f_equal. f_equal. cbn [rev]. rewrite rev_app_distr, rev_involutive, <- !app_assoc. cbn [app]. reflexivity.
    + split.
      { intros m q Hm. cbn [Db]. rewrite SE_app. change (g :: rs) with ([g] ++ rs). rewrite SE_app.
      rewrite SE_in. split.
      * intros (k & Hk & Hq). apply SE_in in Hk. destruct Hk as (k1 & Hk1 & Hk).
        apply SE_run in Hk1; auto. apply SE_one in Hk.
        assert (k1 <= n) by (apply lit_le in Hk1; tauto).
        apply Semg in Hk; auto.
        assert (k <= n) by (eapply (proj2 (D_le input ci multi single xpath)); eauto).
        apply Semb in Hq; auto.
        apply in_flat_map. exists k. split; [|exact Hq]. apply in_flat_map. exists k1. auto.
      * intros H. apply in_flat_map in H as (k & Hk & Hq). apply in_flat_map in Hk as (k1 & Hk1 & Hk).
        assert (k1 <= n) by (apply lit_le in Hk1; tauto).
        assert (k <= n) by (eapply (proj2 (D_le input ci multi single xpath)); eauto).
        exists k. split; [|apply Semb; auto].
        apply SE_in. exists k1. split; [apply SE_run; auto|]. apply SE_one. apply Semg; auto. }
      intros m e Hm. cbn [DbO]. rewrite flat_map_assoc. change (g :: rs) with ([g] ++ rs).
      apply (OS_app (map RChar cs) ([g] ++ rs) (lit input ci cs) (fun k0 => flat_map (DbO input ci multi single b') (DaO input ci multi single a k0))); auto.
      * intros m0 e0 Hm0. apply OS_run. exact Hm0.
      * intros m0 e0 Hm0. apply (OS_app [g] rs (DaO input ci multi single a) (DbO input ci multi single b')); auto.
        -- intros m1 e1 Hm1. rewrite OS_one. apply Og. exact Hm1.
        -- intros m1 q1 Hm1 Hq1. eapply (proj2 (DO_le xpath ci single input multi 0 Hfit Hvalid)); eauto.
      * intros m0 q0 Hm0 Hq0. apply lit_le in Hq0. tauto.
  - (* BQ *) intros cs c k rel b' IHb Hok post st acc fuel Ht Hf.
    cbn [ok_b] in Hok. apply andb_true_iff in Hok as [Hok Okb]. apply andb_true_iff in Hok as [Hok Hkq].
    apply andb_true_iff in Hok as [Hok Hrx].
    apply andb_true_iff in Hok as [Ocs Oc]. cbn [show_b] in Hf |- *.
    set (ropt := if rel then [63%N] else []) in *. set (rest := show_b b') in *. set (qt := qtl k) in *.
    assert (Lsh : length (cs ++ c :: qsym k :: qt ++ ropt ++ rest) = length cs + 2 + length qt + length ropt + length rest).
    { rewrite !app_length. cbn [length]. rewrite !app_length. lia. }
    rewrite Lsh in Hf.
    replace ((cs ++ c :: qsym k :: qt ++ ropt ++ rest) ++ post) with (cs ++ c :: qsym k :: qt ++ ropt ++ rest ++ post)
      by (rewrite <- app_assoc; cbn [app]; rewrite <- !app_assoc; reflexivity).
    rewrite (p_branch_run xpath cs fuel st _ acc Ocs) by (cbn; auto; lia).
    destruct (fuel - length cs) as [|[|[|f3]]] eqn:Ef; try lia.
    destruct (ordinary_neq c Oc) as (_ & _ & _ & _ & _ & _ & _ & _ & _ & _ & _ & _ & A13 & A14).
    rewrite p_branch_S, A13, A14. cbn [orb].
    rewrite p_piece_S, (p_atom_S xpath st f3 c _ Oc). cbn [pbind]. subst qt. rewrite (p_quant_sym k _ Hkq). cbn [pbind].
    assert (Hh : head_fine (rest ++ post)) by (apply (head_fine_b xpath); auto).
    assert (Epiece : (match ropt ++ rest ++ post with
                      | 63%N :: rest3 => if xpath then PV (RQuant (RChar c) (qmin k) (qmaxo k) false, st) rest3 else PI
                      | _ => PV (RQuant (RChar c) (qmin k) (qmaxo k) true, st) (ropt ++ rest ++ post)
                      end) = PV (RQuant (RChar c) (qmin k) (qmaxo k) (negb rel), st) (rest ++ post)).
    { subst ropt. destruct rel; cbn [app negb].
      - cbn [negb orb] in Hrx. rewrite Hrx. reflexivity.
      - apply (not_qmark_match (rest ++ post)). exact Hh. }
    rewrite Epiece. cbn [pbind].
    destruct (IHb Okb post st (RQuant (RChar c) (qmin k) (qmaxo k) (negb rel) :: rev (map RChar cs) ++ acc) (S (S f3)) Ht
                ltac:(fold rest; lia)) as (rs & st' & Eb & Semb & Ob).
    fold rest in Eb. rewrite Eb.
    exists (map RChar cs ++ RQuant (RChar c) (qmin k) (qmaxo k) (negb rel) :: rs), st'. split.
    + f_equal. f_equal. f_equal. cbn [rev]. rewrite rev_app_distr, rev_involutive, <- !app_assoc. cbn [app]. reflexivity.
    + split.
      { intros m q Hm. cbn [Db]. rewrite SE_app.
      change (RQuant (RChar c) (qmin k) (qmaxo k) (negb rel) :: rs) with ([RQuant (RChar c) (qmin k) (qmaxo k) (negb rel)] ++ rs).
      rewrite SE_app. rewrite SE_in. split.
      * intros (k0 & Hk & Hq). apply SE_in in Hk. destruct Hk as (k1 & Hk1 & Hk).
        apply SE_run in Hk1; auto. apply SE_one in Hk. rewrite Dq_flags in Hk.
        assert (k1 <= n) by (apply lit_le in Hk1; tauto).
        assert (k0 <= n) by (eapply (Dq_le input ci multi single); eauto).
        apply Semb in Hq; auto.
        apply in_flat_map. exists k0. split; [|exact Hq]. apply in_flat_map. exists k1. auto.
      * intros H. apply in_flat_map in H as (k0 & Hk & Hq). apply in_flat_map in Hk as (k1 & Hk1 & Hk).
        assert (k1 <= n) by (apply lit_le in Hk1; tauto).
        assert (k0 <= n) by (eapply (Dq_le input ci multi single); eauto).
        exists k0. split; [|apply Semb; auto].
        apply SE_in. exists k1. split; [apply SE_run; auto|]. apply SE_one. rewrite Dq_flags. exact Hk. }
      intros m e Hm. cbn [DbO]. rewrite flat_map_assoc.
      change (RQuant (RChar c) (qmin k) (qmaxo k) (negb rel) :: rs) with ([RQuant (RChar c) (qmin k) (qmaxo k) (negb rel)] ++ rs).
      apply (OS_app (map RChar cs) ([RQuant (RChar c) (qmin k) (qmaxo k) (negb rel)] ++ rs) (lit input ci cs)
               (fun k0 => flat_map (DbO input ci multi single b') (DqO input ci multi single c k rel k0))); auto.
      * intros m0 e0 Hm0. apply OS_run. exact Hm0.
      * intros m0 e0 Hm0. apply (OS_app [RQuant (RChar c) (qmin k) (qmaxo k) (negb rel)] rs (DqO input ci multi single c k rel) (DbO input ci multi single b')); auto.
        -- intros m1 e1 Hm1. rewrite OS_one. apply O_quant_char.
        -- intros m1 q1 Hm1 Hq1. eapply (DqO_le ci single input multi 0 Hfit); eauto.
      * intros m0 q0 Hm0 Hq0. apply lit_le in Hq0. tauto.
  - (* BAn *) intros cs eol b' IHb Hok post st acc fuel Ht Hf.
    cbn [ok_b] in Hok. apply andb_true_iff in Hok as [Hok Okb]. apply andb_true_iff in Hok as [Ocs Hx].
    cbn [show_b] in Hf |- *. set (rest := show_b b') in *.
    assert (Lsh : length (cs ++ (if eol then 36%N else 94%N) :: rest) = length cs + 1 + length rest) by (rewrite app_length; cbn [length]; lia).
    rewrite Lsh in Hf.
    replace ((cs ++ (if eol then 36%N else 94%N) :: rest) ++ post) with (cs ++ (if eol then 36%N else 94%N) :: rest ++ post)
      by (rewrite <- app_assoc; reflexivity).
    rewrite (p_branch_run xpath cs fuel st _ acc Ocs) by (try (destruct eol; cbn; auto 10); lia).
    destruct (fuel - length cs) as [|[|[|f3]]] eqn:Ef; try lia.
    rewrite p_branch_S.
    replace (((if eol then 36 else 94) =? 124) || ((if eol then 36 else 94) =? 41))%N with false by (destruct eol; reflexivity).
    rewrite p_piece_S, Hx, p_atom_anchor. cbn [pbind].
    assert (Hh : head_fine (rest ++ post)) by (apply (head_fine_b xpath); auto).
    rewrite (head_fine_quant (rest ++ post) Hh). cbn [pbind].
    destruct (IHb Okb post st ((if eol then REol else RBol) :: rev (map RChar cs) ++ acc) (S (S f3)) Ht
                ltac:(fold rest; lia)) as (rs & st' & Eb & Semb & Ob).
    fold rest in Eb. rewrite Hx in Eb. rewrite Eb.
    exists (map RChar cs ++ (if eol then REol else RBol) :: rs), st'. split.
    + f_equal. f_equal. f_equal. cbn [rev]. rewrite rev_app_distr, rev_involutive, <- !app_assoc. cbn [app]. reflexivity.
    + split.
      { intros m q Hm. cbn [Db]. rewrite SE_app.
      change ((if eol then REol else RBol) :: rs) with ([if eol then REol else RBol] ++ rs).
      rewrite SE_app. rewrite SE_in. split.
      * intros (k0 & Hk & Hq). apply SE_in in Hk. destruct Hk as (k1 & Hk1 & Hk).
        apply SE_run in Hk1; auto. apply SE_one in Hk. rewrite Dan_flags in Hk.
        assert (k1 <= n) by (apply lit_le in Hk1; tauto).
        assert (k0 <= n) by (eapply (Dan_le input ci multi single); eauto).
        apply Semb in Hq; auto.
        apply in_flat_map. exists k0. split; [|exact Hq]. apply in_flat_map. exists k1. auto.
      * intros H. apply in_flat_map in H as (k0 & Hk & Hq). apply in_flat_map in Hk as (k1 & Hk1 & Hk).
        assert (k1 <= n) by (apply lit_le in Hk1; tauto).
        assert (k0 <= n) by (eapply (Dan_le input ci multi single); eauto).
        exists k0. split; [|apply Semb; auto].
        apply SE_in. exists k1. split; [apply SE_run; auto|]. apply SE_one. rewrite Dan_flags. exact Hk. }
      intros m e Hm. cbn [DbO]. rewrite flat_map_assoc.
      change ((if eol then REol else RBol) :: rs) with ([if eol then REol else RBol] ++ rs).
      apply (OS_app (map RChar cs) ([if eol then REol else RBol] ++ rs) (lit input ci cs)
               (fun k0 => flat_map (DbO input ci multi single b') (DanO input ci multi single eol k0))); auto.
      * intros m0 e0 Hm0. apply OS_run. exact Hm0.
      * intros m0 e0 Hm0. apply (OS_app [if eol then REol else RBol] rs (DanO input ci multi single eol) (DbO input ci multi single b')); auto.
        -- intros m1 e1 Hm1. rewrite OS_one. apply O_anchor.
        -- intros m1 q1 Hm1 Hq1. eapply (DanO_le ci single input multi 0); eauto.
      * intros m0 q0 Hm0 Hq0. apply lit_le in Hq0. tauto.
  - (* BD *) intros cs da q b' IHb Hok post st acc fuel Ht Hf.
    cbn [ok_b] in Hok. apply andb_true_iff in Hok as [Hok Okb]. apply andb_true_iff in Hok as [Hok Hkq].
    apply andb_true_iff in Hok as [Ocs Hda].
    cbn [show_b] in Hf |- *. set (rest := show_b b') in *.
    assert (Lat : 1 <= length (datext da)) by (destruct da; cbn; lia).
    assert (Lsh : length (cs ++ datext da ++ qtext q ++ rest) = length cs + length (datext da) + length (qtext q) + length rest)
      by (rewrite !app_length; lia).
    rewrite Lsh in Hf.
    replace ((cs ++ datext da ++ qtext q ++ rest) ++ post) with (cs ++ datext da ++ qtext q ++ rest ++ post)
      by (rewrite <- !app_assoc; reflexivity).
    rewrite (p_branch_run xpath cs fuel st _ acc Ocs) by (try (destruct da; cbn; auto 12); lia).
    destruct (fuel - length cs) as [|[|[|f3]]] eqn:Ef; try lia.
    assert (Hb0 : p_branch (S (S (S f3))) xpath st (datext da ++ qtext q ++ rest ++ post) (rev (map RChar cs) ++ acc)
                  = pbind (p_piece (S (S f3)) xpath st (datext da ++ qtext q ++ rest ++ post))
                          (fun '(pc, st1) rest0 => p_branch (S (S f3)) xpath st1 rest0 (pc :: rev (map RChar cs) ++ acc)))
      by (destruct da; reflexivity).
    rewrite Hb0.
    rewrite p_piece_S, (p_atom_da _ st da _ Hda). cbn [pbind].
    assert (Hh : head_fine (rest ++ post)) by (apply (head_fine_b xpath); auto).
    assert (Epiece : pbind (p_quant (qtext q ++ rest ++ post)) (fun qq rest2 =>
                       match qq with
                       | None => PV (da_re da, st) rest2
                       | Some (mn, mx) =>
                           match rest2 with
                           | 63%N :: rest3 => if xpath then PV (RQuant (da_re da) mn mx false, st) rest3 else PI
                           | _ => PV (RQuant (da_re da) mn mx true, st) rest2
                           end
                       end) = PV (dot_re da q, st) (rest ++ post)).
    { destruct q as [[k rel]|]; cbn [qtext dot_re okqq] in *.
      - apply andb_true_iff in Hkq as [Hrx Hkq]. cbn [app]. rewrite <- app_assoc. rewrite (p_quant_sym k _ Hkq). cbn [pbind].
        destruct rel; cbn [app negb].
        + cbn [negb orb] in Hrx. rewrite Hrx. reflexivity.
        + apply (not_qmark_match (rest ++ post)). exact Hh.
      - cbn [app]. rewrite (head_fine_quant (rest ++ post) Hh). reflexivity. }
    rewrite Epiece. cbn [pbind].
    destruct (IHb Okb post st (dot_re da q :: rev (map RChar cs) ++ acc) (S (S f3)) Ht
                ltac:(fold rest; lia)) as (rs & st' & Eb & Semb & Ob).
    fold rest in Eb. rewrite Eb.
    exists (map RChar cs ++ dot_re da q :: rs), st'. split.
    + f_equal. f_equal. f_equal. cbn [rev]. rewrite rev_app_distr, rev_involutive, <- !app_assoc. cbn [app]. reflexivity.
    + split.
      { intros m q0 Hm. cbn [Db]. rewrite SE_app.
      change (dot_re da q :: rs) with ([dot_re da q] ++ rs).
      rewrite SE_app. rewrite SE_in. split.
      * intros (k0 & Hk & Hq). apply SE_in in Hk. destruct Hk as (k1 & Hk1 & Hk).
        apply SE_run in Hk1; auto. apply SE_one in Hk. rewrite Dd_flags in Hk.
        assert (k1 <= n) by (apply lit_le in Hk1; tauto).
        assert (k0 <= n) by (eapply (Dd_le input ci multi single xpath da); eauto).
        apply Semb in Hq; auto.
        apply in_flat_map. exists k0. split; [|exact Hq]. apply in_flat_map. exists k1. auto.
      * intros H. apply in_flat_map in H as (k0 & Hk & Hq). apply in_flat_map in Hk as (k1 & Hk1 & Hk).
        assert (k1 <= n) by (apply lit_le in Hk1; tauto).
        assert (k0 <= n) by (eapply (Dd_le input ci multi single xpath da); eauto).
        exists k0. split; [|apply Semb; auto].
        apply SE_in. exists k1. split; [apply SE_run; auto|]. apply SE_one. rewrite Dd_flags. exact Hk. }
      intros m e Hm. cbn [DbO]. rewrite flat_map_assoc.
      change (dot_re da q :: rs) with ([dot_re da q] ++ rs).
      apply (OS_app (map RChar cs) ([dot_re da q] ++ rs) (lit input ci cs)
               (fun k0 => flat_map (DbO input ci multi single b') (DdO input ci multi single da q k0))); auto.
      * intros m0 e0 Hm0. apply OS_run. exact Hm0.
      * intros m0 e0 Hm0. apply (OS_app [dot_re da q] rs (DdO input ci multi single da q) (DbO input ci multi single b')); auto.
        -- intros m1 e1 Hm1. rewrite OS_one. apply O_dot.
        -- intros m1 q1 Hm1 Hq1. eapply (DdO_le xpath ci single input multi 0 Hfit Hvalid da); eauto.
      * intros m0 q0 Hm0 Hq0. apply lit_le in Hq0. tauto.
  - (* AOne *) intros b IHb Hok post st acc f1 f2 Ht Hf1 Hf2. cbn [show_a ok_a] in *.
    assert (Htb : term_b post) by (destruct Ht as [->|(t & ->)]; [left; auto|right; eauto]).
    destruct (IHb Hok post st [] f1 Htb ltac:(lia)) as (rs & st1 & Eb & Semb & Ob). cbn [rev app] in Eb.
    destruct f2 as [|f2]; [lia|].
    exists (RSeq rs), st1, post, (RSeq rs :: acc), st1. split; [exact Eb|]. split; [apply p_more_S_stop; exact Ht|].
    split; [discriminate|]. split.
    2:{ intros p e Hp. change (DaO input ci multi single (AOne b) p) with (DbO input ci multi single b p).
        cbn [rev]. rewrite flat_map_app. cbn [flat_map]. rewrite app_nil_r, OS_seq, (Ob p e Hp). reflexivity. }
    intros p q Hp.
    assert (So : In q (E (RSeq rs) p) <-> In q (Db input ci multi single b p)) by (apply (Semb p q Hp)).
    cbn [Da]. split.
    + intros (x & [<-|Hx] & Hq); [right; apply So; exact Hq|left; eauto].
    + intros [(x & Hx & Hq)|Hq]; [exists x; split; [right; exact Hx|exact Hq]|exists (RSeq rs); split; [left; reflexivity|apply So; exact Hq]].
  - (* ACons *) intros b IHb a' IHa Hok post st acc f1 f2 Ht Hf1 Hf2. cbn [show_a ok_a] in *.
    apply andb_true_iff in Hok as [Okb Oka].
    rewrite app_length in Hf1, Hf2. cbn [length] in Hf1, Hf2.
    rewrite <- app_assoc. cbn [app].
    destruct (IHb Okb (124%N :: show_a a' ++ post) st [] f1 ltac:(right; eexists; left; reflexivity) ltac:(lia)) as (rs & st1 & Eb & Semb & Ob).
    cbn [rev app] in Eb.
    destruct f2 as [|f2]; [lia|].
    destruct (IHa Oka post st1 (RSeq rs :: acc) f2 f2 Ht ltac:(lia) ltac:(lia)) as (b2 & st2 & rest2 & bs & st' & E1 & E2 & Nbs & Sem & SemO).
    exists (RSeq rs), st1, (124%N :: show_a a' ++ post), bs, st'. split; [exact Eb|]. split.
    { rewrite p_more_S_bar, E1. cbn [pbind]. exact E2. }
    split; [exact Nbs|]. split.
    2:{ intros p e Hp. rewrite (SemO p e Hp).
        change (DaO input ci multi single (ACons b a') p) with (DbO input ci multi single b p ++ DaO input ci multi single a' p).
        cbn [rev]. rewrite flat_map_app. cbn [flat_map]. rewrite app_nil_r, <- app_assoc, OS_seq, (Ob p e Hp). reflexivity. }
    intros p q Hp.
    assert (So : In q (E (RSeq rs) p) <-> In q (Db input ci multi single b p)) by (apply (Semb p q Hp)).
    rewrite (Sem p q Hp). cbn [Da]. rewrite in_app_iff. split.
    + intros [(x & [<-|Hx] & Hq)|Hq]; [right; left; apply So; exact Hq|left; eauto|right; right; exact Hq].
    + intros [(x & Hx & Hq)|[Hq|Hq]]; [left; exists x; split; [right; exact Hx|exact Hq]|left; exists (RSeq rs); split; [left; reflexivity|apply So; exact Hq]|right; exact Hq].
Qed.

Theorem spec_parse_grammar a : ok_a xpath a = true ->
  exists r, spec_parse xpath (show_a a) = Valid r
    /\ (forall p q, p <= n -> (In q (E r p) <-> In q (Da input ci multi single a p)))
    /\ (forall p e, p <= n -> O r p e = DaO input ci multi single a p).
Proof.
  intros Hok. destruct spec_parses as [_ QA].
  destruct (QA a Hok [] {| opened := 0; closed := [] |} [] (8 * length (show_a a) + 15) (8 * length (show_a a) + 15)
              ltac:(left; reflexivity) ltac:(lia) ltac:(lia)) as (b & st1 & rest1 & bs & st' & E1 & E2 & Nbs & Sem & SemO).
  rewrite app_nil_r in E1.
  exists (alt_re bs). unfold spec_parse.
  replace (8 * length (show_a a) + 16) with (S (8 * length (show_a a) + 15)) by lia.
  rewrite p_regexp_S, E1. cbn [pbind]. rewrite E2. cbn [pbind]. fold (alt_re bs). split; [reflexivity|]. split.
  - intros p q Hp. rewrite (alt_re_sem bs p q Nbs), (Sem p q Hp). split; [intros [(x & [] & _)|H]; exact H|auto].
  - intros p e Hp. rewrite (alt_re_O bs p e Nbs), (SemO p e Hp). reflexivity.
Qed.
End SPc.

(* ---------------------------------------------------------------- all stages together *)
Lemma nonempty_in (l : list nat) : l <> [] <-> exists q, In q l.
Proof. destruct l as [|x t]; split; [intros H; contradiction|intros (q & [])|intros _; exists x; left; reflexivity|discriminate]. Qed.

Theorem grammar_end_to_end xpath a fls input :
  ok_a xpath a = true -> existsb (N.eqb 59) fls = false -> (N.of_nat (length input) < umax)%N -> valid_in input ->
  match spec_flags xpath fls with
  | Valid sf =>
      s_q sf = false -> s_x sf = false ->
      exists re r, regex_new true xpath (show_a a) fls = Ok re /\ spec_parse xpath (show_a a) = Valid r
                   /\ is_match re input = Ok (spec_is_match sf input r)
  | Invalid => regex_new true xpath (show_a a) fls = Err EInvalidFlags
  | Unspecified => True
  end.
Proof.
  intros Hok Hsep Hfit Hval. pose proof (parse_flags_spec xpath fls Hsep) as PF. unfold regex_new.
  destruct (parse_flags xpath fls) as [fl|e| |] eqn:Efl; destruct (spec_flags xpath fls) as [sf| |] eqn:Esf;
    try contradiction; try exact I; try (destruct e; try contradiction; reflexivity).
  destruct PF as [(A1 & A2 & A3 & A4 & A5) Hx]. intros Hsq Hsx. cbn [rbind].
  set (pat := show_a a).
  (* the parser's result does not depend on the input; get it once *)
  destruct (parse_expr_grammar pat xpath (f_case fl) (f_single fl) [] (f_multi fl) 0 (eq_refl : (N.of_nat (length (@nil N)) < umax)%N) valid_nil a Hok eq_refl)
    as (top & st' & Eparse & Hi & Hb & _ & _).
  assert (Ecomp : compile true fl pat
                  = Ok (mk_program_unopt pat top (parens st') (f_case fl) (f_multi fl) false false)).
  { unfold compile. replace (f_literal fl) with false by congruence. replace (f_ws fl) with false by congruence.
    rewrite Hx, Eparse. cbn [rbind]. rewrite Hi, Nat.eqb_refl, Hb. reflexivity. }
  rewrite Ecomp. cbn [rbind].
  set (prog := mk_program_unopt pat top (parens st') (f_case fl) (f_multi fl) false false).
  assert (Hun : p_hasbol prog = false /\ p_minlen prog = 0%N /\ p_prefix prog = None /\ p_icc prog = None /\ p_pre prog = [])
    by (repeat split; reflexivity).
  assert (Facts : forall inp, (N.of_nat (length inp) < umax)%N -> valid_in inp -> simple inp (f_case fl) (f_multi fl) false (parens st') top
                   /\ (forall p q, p <= length inp -> (In q (Rop inp (f_case fl) (f_multi fl) top p) <-> In q (Da inp (f_case fl) (f_multi fl) (f_single fl) a p)))).
  { intros inp Hfi Hvi. destruct (parse_expr_grammar pat xpath (f_case fl) (f_single fl) inp (f_multi fl) (parens st') Hfi Hvi a Hok eq_refl)
      as (top' & st'' & Eparse' & _ & _ & G & S0 & _).
    rewrite Eparse in Eparse'. injection Eparse' as <- <-. split; [exact G|exact S0]. }
  (* the nullable probe *)
  pose proof (fragment_no_panic_no_out prog [] (proj1 (Facts [] eq_refl valid_nil)) Hun 0 st0 (le_n 0) eq_refl) as NP0.
  destruct (matches prog [] 0 st0) as [s0|s0| |k0]; try contradiction; cbn [mres_bool rbind].
  all: destruct (spec_parse_grammar xpath input sf Hfit Hval a Hok) as (r & Espec & Sr & _).
  all: eexists; exists r; split; [reflexivity|]; split; [exact Espec|]; unfold is_match; cbn [r_prog].
  all: pose proof (fragment_no_panic_no_out prog input (proj1 (Facts input Hfit Hval)) Hun 0 st0 (Nat.le_0_l _) eq_refl) as NP.
  all: pose proof (fragment_is_match_iff prog input (proj1 (Facts input Hfit Hval)) Hun 0 st0 (Nat.le_0_l _) eq_refl) as MI.
  all: assert (Key : (exists m, 0 <= m <= length input /\ Rop input (p_case prog) (p_multi prog) (p_op prog) m <> [])
                      <-> spec_is_match sf input r = true).
  1,3: (unfold spec_is_match; rewrite existsb_exists; split;
        [intros (m & Hm & Hne); exists m; split; [apply in_seq; lia|];
         apply nonempty_in in Hne; destruct Hne as (q & Hq);
         apply (proj2 (Facts input Hfit Hval) m q ltac:(lia)) in Hq; rewrite A1, A2, A3 in Hq; apply (Sr m q ltac:(lia)) in Hq;
         destruct (ends sf input r m); [destruct Hq|reflexivity]
        |intros (m & Hin & Hb'); apply in_seq in Hin; exists m; split; [lia|];
         apply nonempty_in; destruct (ends sf input r m) as [|q t] eqn:Ee; [discriminate|];
         exists q; apply (proj2 (Facts input Hfit Hval) m q ltac:(lia)); rewrite A1, A2, A3; apply (Sr m q ltac:(lia)); rewrite Ee; left; reflexivity]).
  all: destruct (matches prog input 0 st0) as [s1|s1| |k1]; try contradiction; cbn [mres_bool rbind]; f_equal; symmetry.
  1,3: apply Key; apply MI; eauto.
  all: apply not_true_is_false; intros Hs; apply Key in Hs; apply MI in Hs; destruct Hs as (s'' & Hs''); discriminate.
Qed.

(* non-vacuity: x(ab|c(?:d|))y|z *)
Definition ex_tree : alt :=
  ACons (BGrp [120%N] true (ACons (BEnd [97; 98]%N) (AOne (BGrp [99%N] false (ACons (BEnd [100%N]) (AOne (BEnd []))) (BEnd []))))
              (BEnd [121%N]))
        (AOne (BEnd [122%N])).
Example ex_tree_text : show_a ex_tree = [120; 40; 97; 98; 124; 99; 40; 63; 58; 100; 124; 41; 41; 121; 124; 122]%N /\ ok_a true ex_tree = true.
Proof. split; reflexivity. Qed.
Example ex_tree_runs :
  match regex_new true true (show_a ex_tree) [105]%N with
  | Ok re => is_match re [45; 88; 67; 89]%N
  | _ => Err ESyntax
  end = Ok true.
Proof. vm_compute. reflexivity. Qed.

(* non-vacuity with quantified characters: a+(?:b|c*?d)x? under XPath *)
Definition ex_tree_q : alt :=
  AOne (BQ [] 97%N QPlus false
          (BGrp [] false (ACons (BEnd [98%N]) (AOne (BQ [] 99%N QStar true (BEnd [100%N]))))
                (BQ [] 120%N QOpt false (BEnd [])))).
Example ex_tree_q_text : show_a ex_tree_q = [97; 43; 40; 63; 58; 98; 124; 99; 42; 63; 100; 41; 120; 63]%N /\ ok_a true ex_tree_q = true.
Proof. split; reflexivity. Qed.
Example ex_tree_q_runs :
  match regex_new true true (show_a ex_tree_q) []%N with
  | Ok re => is_match re [122; 97; 97; 99; 99; 100]%N
  | _ => Err ESyntax
  end = Ok true.
Proof. vm_compute. reflexivity. Qed.

(* non-vacuity with counted quantifiers: xa{2,3}(b{2}|c{1,}?)d{0,12} under XPath *)
Definition ex_tree_br : alt :=
  AOne (BQ [120%N] 97%N (QBr [50%N] (BrTo [51%N])) false
          (BGrp [] true (ACons (BQ [] 98%N (QBr [50%N] BrExact) false (BEnd []))
                               (AOne (BQ [] 99%N (QBr [49%N] BrOpen) true (BEnd []))))
                (BQ [] 100%N (QBr [48%N] (BrTo [49%N; 50%N])) false (BEnd [])))).
Example ex_tree_br_text :
  show_a ex_tree_br = [120; 97; 123; 50; 44; 51; 125; 40; 98; 123; 50; 125; 124; 99; 123; 49; 44; 125; 63; 41;
                       100; 123; 48; 44; 49; 50; 125]%N /\ ok_a true ex_tree_br = true.
Proof. split; reflexivity. Qed.
Example ex_tree_br_runs :
  match regex_new true true (show_a ex_tree_br) []%N with
  | Ok re => (is_match re [122; 120; 97; 97; 97; 98; 98; 100]%N, is_match re [120; 97; 98; 98]%N)
  | _ => (Err ESyntax, Err ESyntax)
  end = (Ok true, Ok false).
Proof. vm_compute. reflexivity. Qed.

(* non-vacuity with dots: a.*?b(?:.|c).{2} under XPath, without and with flag s on an input with a line feed *)
Definition ex_tree_dot : alt :=
  AOne (BD [97%N] ADot (Some (QStar, true))
          (BGrp [98%N] false (ACons (BD [] ADot None (BEnd [])) (AOne (BEnd [99%N])))
                (BD [] ADot (Some (QBr [50%N] BrExact, false)) (BEnd [])))).
Example ex_tree_dot_text :
  show_a ex_tree_dot = [97; 46; 42; 63; 98; 40; 63; 58; 46; 124; 99; 41; 46; 123; 50; 125]%N /\ ok_a true ex_tree_dot = true.
Proof. split; reflexivity. Qed.
Example ex_tree_dot_runs :
  match regex_new true true (show_a ex_tree_dot) []%N, regex_new true true (show_a ex_tree_dot) [115]%N with
  | Ok re, Ok res => (is_match re [97; 120; 98; 99; 121; 122]%N, is_match re [97; 10; 98; 99; 121; 122]%N,
                      is_match res [97; 10; 98; 99; 121; 122]%N, is_match res [97; 10; 98; 99; 121]%N)
  | _, _ => (Err ESyntax, Err ESyntax, Err ESyntax, Err ESyntax)
  end = (Ok true, Ok false, Ok true, Ok false).
Proof. vm_compute. reflexivity. Qed.

(* non-vacuity with class escapes: x\d+(?:\s|-)\w{2}\S*? under XPath *)
Definition ex_tree_esc : alt :=
  AOne (BD [120%N] (AE 100%N) (Some (QPlus, false))
          (BGrp [] false (ACons (BD [] (AE 115%N) None (BEnd [])) (AOne (BEnd [45%N])))
                (BD [] (AE 119%N) (Some (QBr [50%N] BrExact, false)) (BD [] (AE 83%N) (Some (QStar, true)) (BEnd []))))).
Example ex_tree_esc_text :
  show_a ex_tree_esc = [120; 92; 100; 43; 40; 63; 58; 92; 115; 124; 45; 41; 92; 119; 123; 50; 125; 92; 83; 42; 63]%N
  /\ ok_a true ex_tree_esc = true.
Proof. split; reflexivity. Qed.
Example ex_tree_esc_runs :
  match regex_new true true (show_a ex_tree_esc) []%N with
  | Ok re => (is_match re [122; 120; 52; 50; 32; 97; 1634]%N, is_match re [120; 52; 45; 95; 33]%N, is_match re [120; 45; 97; 98]%N)
  | _ => (Err ESyntax, Err ESyntax, Err ESyntax)
  end = (Ok true, Ok false, Ok false).
Proof. vm_compute. reflexivity. Qed.

(* the grammar half on this grammar: both parsers accept every printed tree *)
Theorem grammar_accepted fl a :
  ok_a (f_xpath fl) a = true -> f_literal fl = false -> f_ws fl = false ->
  (exists r, spec_parse (f_xpath fl) (show_a a) = Valid r) /\ (exists prog, compile true fl (show_a a) = Ok prog).
Proof.
  intros Hok Hq Hx. split.
  - destruct (spec_parse_grammar (f_xpath fl) [] {| s_i := false; s_m := false; s_s := false; s_x := false; s_q := false |}
                (eq_refl : (N.of_nat (length (@nil N)) < umax)%N) valid_nil a Hok)
      as (r & E & _). eauto.
  - destruct (parse_expr_grammar (show_a a) (f_xpath fl) (f_case fl) (f_single fl) [] (f_multi fl) 0 (eq_refl : (N.of_nat (length (@nil N)) < umax)%N) valid_nil a Hok eq_refl)
      as (top & st' & Eparse & Hi & Hb & _ & _).
    unfold compile. rewrite Hq, Hx, Eparse. cbn [rbind]. rewrite Hi, Nat.eqb_refl. cbn [negb]. eauto.
Qed.

(* tokenize on the grammar, from the strings: if Regex::new does not flag the regex as matching the
   empty string, the token iterator finishes within len+3 steps with at most len+1 tokens - no
   hypothesis about any stage (parser, matcher interface, scan loop) is left *)
Theorem grammar_tokenize_end_to_end xpath a fls input :
  ok_a xpath a = true -> existsb (N.eqb 59) fls = false -> (N.of_nat (length input) < umax)%N -> valid_in input ->
  match spec_flags xpath fls with
  | Valid sf =>
      s_q sf = false -> s_x sf = false ->
      exists re, regex_new true xpath (show_a a) fls = Ok re
        /\ (r_nullable re = false ->
            exists l, tok_all (matches (r_prog re) input) input (S (S (S (length input)))) {| t_prev := Some 0; t_ms := st0 |} = Ok l
                      /\ length l <= length input + 1
                      /\ l = pieces input (scan (matches (r_prog re) input) input (S (S (length input))) 0 st0) 0)
  | _ => True
  end.
Proof.
  intros Hok Hsep Hfit Hval. pose proof (parse_flags_spec xpath fls Hsep) as PF. unfold regex_new.
  destruct (parse_flags xpath fls) as [fl|e| |] eqn:Efl; destruct (spec_flags xpath fls) as [sf| |] eqn:Esf;
    try contradiction; try exact I; try (destruct e; contradiction).
  destruct PF as [(A1 & A2 & A3 & A4 & A5) Hx]. intros Hsq Hsx. cbn [rbind].
  set (pat := show_a a).
  destruct (parse_expr_grammar pat xpath (f_case fl) (f_single fl) [] (f_multi fl) 0 (eq_refl : (N.of_nat (length (@nil N)) < umax)%N) valid_nil a Hok eq_refl)
    as (top & st' & Eparse & Hi & Hb & _ & _ & Hfr & _).
  assert (Ecomp : compile true fl pat
                  = Ok (mk_program_unopt pat top (parens st') (f_case fl) (f_multi fl) false false)).
  { unfold compile. replace (f_literal fl) with false by congruence. replace (f_ws fl) with false by congruence.
    rewrite Hx, Eparse. cbn [rbind]. rewrite Hi, Nat.eqb_refl, Hb. reflexivity. }
  rewrite Ecomp. cbn [rbind].
  set (prog := mk_program_unopt pat top (parens st') (f_case fl) (f_multi fl) false false).
  assert (Hun : p_hasbol prog = false /\ p_minlen prog = 0%N /\ p_prefix prog = None /\ p_icc prog = None /\ p_pre prog = [])
    by (repeat split; reflexivity).
  assert (Facts : forall inp, (N.of_nat (length inp) < umax)%N -> valid_in inp -> simple inp (f_case fl) (f_multi fl) false (parens st') top).
  { intros inp Hfi Hvi. destruct (parse_expr_grammar pat xpath (f_case fl) (f_single fl) inp (f_multi fl) (parens st') Hfi Hvi a Hok eq_refl)
      as (top' & st'' & Eparse' & _ & _ & G & _).
    rewrite Eparse in Eparse'. injection Eparse' as <- <-. exact G. }
  pose proof (fragment_no_panic_no_out prog [] (Facts [] eq_refl valid_nil) Hun 0 st0 (le_n 0) eq_refl) as NP0.
  destruct (matches prog [] 0 st0) as [s0|s0| |k0] eqn:E0; try contradiction; cbn [mres_bool rbind];
    (eexists; split; [reflexivity|]); cbn [r_nullable r_prog]; intros Hn; [discriminate|].
  assert (Hnn : forall s', matches prog [] 0 st0 <> MTrue s') by (intros s' Es; rewrite E0 in Es; discriminate).
  destruct (fragment_token_bound prog input (Facts input Hfit Hval) Hfr Hun (Facts [] eq_refl valid_nil) Hnn st0 eq_refl) as (l & El & Hl).
  exists l. split; [exact El|]. split; [exact Hl|].
  pose proof (fragment_tokenize prog input (Facts input Hfit Hval) Hfr Hun (Facts [] eq_refl valid_nil) Hnn (S (length input)) 0 st0 eq_refl
                ltac:(lia) ltac:(lia)) as Et.
  rewrite El in Et. injection Et as ->. reflexivity.
Qed.

(* ---------------------------------------------------------------- the verdict through the denotation *)
Definition Dmatch (input : list N) (ci multi single : bool) (a : alt) : bool :=
  existsb (fun m => match Da input ci multi single a m with [] => false | _ => true end) (seq 0 (S (length input))).

Theorem compile_grammar_D fl a input :
  ok_a (f_xpath fl) a = true -> f_literal fl = false -> f_ws fl = false -> (N.of_nat (length input) < umax)%N -> valid_in input ->
  exists prog, compile true fl (show_a a) = Ok prog
    /\ match matches prog input 0 st0 with
       | MTrue _ => Dmatch input (f_case fl) (f_multi fl) (f_single fl) a = true
       | MFalse _ => Dmatch input (f_case fl) (f_multi fl) (f_single fl) a = false
       | MOut | MPanic _ => False
       end.
Proof.
  intros Hok Hq Hx Hfit Hval. set (pat := show_a a).
  destruct (parse_expr_grammar pat (f_xpath fl) (f_case fl) (f_single fl) [] (f_multi fl) 0
              (eq_refl : (N.of_nat (length (@nil N)) < umax)%N) valid_nil a Hok eq_refl)
    as (top & st' & Eparse & Hi & Hb & _ & _).
  exists (mk_program_unopt pat top (parens st') (f_case fl) (f_multi fl) false false). split.
  { unfold compile. rewrite Hq, Hx, Eparse. cbn [rbind]. rewrite Hi, Nat.eqb_refl, Hb. reflexivity. }
  set (prog := mk_program_unopt pat top (parens st') (f_case fl) (f_multi fl) false false).
  assert (Hun : p_hasbol prog = false /\ p_minlen prog = 0%N /\ p_prefix prog = None /\ p_icc prog = None /\ p_pre prog = [])
    by (repeat split; reflexivity).
  destruct (parse_expr_grammar pat (f_xpath fl) (f_case fl) (f_single fl) input (f_multi fl) (parens st') Hfit Hval a Hok eq_refl)
    as (top' & st'' & Eparse' & _ & _ & G & S0 & _).
  rewrite Eparse in Eparse'. injection Eparse' as <- <-.
  pose proof (fragment_no_panic_no_out prog input G Hun 0 st0 (Nat.le_0_l _) eq_refl) as NP.
  pose proof (fragment_is_match_iff prog input G Hun 0 st0 (Nat.le_0_l _) eq_refl) as MI.
  assert (Key : (exists m, 0 <= m <= length input /\ Rop input (p_case prog) (p_multi prog) (p_op prog) m <> [])
                <-> Dmatch input (f_case fl) (f_multi fl) (f_single fl) a = true).
  { unfold Dmatch. rewrite existsb_exists. split.
    - intros (m & Hm & Hne). exists m. split; [apply in_seq; lia|].
      apply nonempty_in in Hne. destruct Hne as (q & Hq'). apply (S0 m q ltac:(lia)) in Hq'.
      destruct (Da input (f_case fl) (f_multi fl) (f_single fl) a m); [destruct Hq'|reflexivity].
    - intros (m & Hin & Hb'). apply in_seq in Hin. exists m. split; [lia|].
      apply nonempty_in. destruct (Da input (f_case fl) (f_multi fl) (f_single fl) a m) as [|q t] eqn:Ee; [discriminate|].
      exists q. apply (S0 m q ltac:(lia)). rewrite Ee. left. reflexivity. }
  destruct (matches prog input 0 st0) as [s1|s1| |k1]; try contradiction.
  - apply Key. apply MI. eauto.
  - apply not_true_is_false. intros Hs. apply Key in Hs. apply MI in Hs. destruct Hs as (s'' & Hs''). discriminate.
Qed.

(* what is valid under XSD is valid under XPath *)
Lemma ok_mono : (forall b, ok_b false b = true -> ok_b true b = true) /\ (forall a, ok_a false a = true -> ok_a true a = true).
Proof.
  apply branch_alt_ind; cbn [ok_b ok_a].
  - intros cs H. exact H.
  - intros cs cap a IHa b IHb H. apply andb_true_iff in H as [H Hb]. apply andb_true_iff in H as [H Ha].
    apply andb_true_iff in H as [Hcs _]. rewrite Hcs, (IHa Ha), (IHb Hb), orb_true_r. reflexivity.
  - intros cs c k rel b IHb H. apply andb_true_iff in H as [H Hb]. apply andb_true_iff in H as [H Hk].
    apply andb_true_iff in H as [H _]. rewrite H, Hk, (IHb Hb), orb_true_r. reflexivity.
  - intros cs eol b IHb H. rewrite andb_false_r in H. discriminate.
  - intros cs da q b IHb H. apply andb_true_iff in H as [H Hb]. apply andb_true_iff in H as [H Hq].
    rewrite H, (IHb Hb). destruct q as [[k rel]|]; cbn [okqq] in *; [|reflexivity].
    apply andb_true_iff in Hq as [_ Hk]. rewrite Hk, orb_true_r. reflexivity.
  - intros b IHb H. exact (IHb H).
  - intros b IHb a IHa H. apply andb_true_iff in H as [H1 H2]. rewrite (IHb H1), (IHa H2). reflexivity.
Qed.

(* C17 on this grammar: a pattern of the common subset (capturing groups only, greedy quantifiers)
   compiles under both dialects and the two programs give the same verdict on every input *)
Theorem grammar_same_in_both_dialects fl fl' a input :
  ok_a false a = true -> f_xpath fl = false -> f_xpath fl' = true ->
  f_case fl = f_case fl' -> f_multi fl = f_multi fl' -> f_single fl = f_single fl' ->
  f_literal fl = false -> f_literal fl' = false -> f_ws fl = false -> f_ws fl' = false ->
  (N.of_nat (length input) < umax)%N -> valid_in input ->
  exists prog prog', compile true fl (show_a a) = Ok prog /\ compile true fl' (show_a a) = Ok prog'
    /\ match matches prog input 0 st0, matches prog' input 0 st0 with
       | MTrue _, MTrue _ | MFalse _, MFalse _ => True
       | _, _ => False
       end.
Proof.
  intros Hok Hx Hx' Hc Hm Hsg Hq Hq' Hw Hw' Hfit Hval.
  destruct (compile_grammar_D fl a input ltac:(rewrite Hx; exact Hok) Hq Hw Hfit Hval) as (prog & E & M).
  destruct (compile_grammar_D fl' a input ltac:(rewrite Hx'; apply (proj2 ok_mono); exact Hok) Hq' Hw' Hfit Hval) as (prog' & E' & M').
  exists prog, prog'. split; [exact E|]. split; [exact E'|].
  rewrite <- Hc, <- Hm, <- Hsg in M'.
  destruct (matches prog input 0 st0); destruct (matches prog' input 0 st0); try contradiction; auto; congruence.
Qed.

(* non-vacuity with anchors: ^ab$|c under flag m *)
Definition ex_tree_an : alt :=
  ACons (BAn [] false (BAn [97; 98]%N true (BEnd []))) (AOne (BEnd [99%N])).
Example ex_tree_an_text : show_a ex_tree_an = [94; 97; 98; 36; 124; 99]%N /\ ok_a true ex_tree_an = true.
Proof. split; reflexivity. Qed.
Example ex_tree_an_runs :
  match regex_new true true (show_a ex_tree_an) [109]%N with
  | Ok re => (is_match re [120; 10; 97; 98; 10; 121]%N, is_match re [120; 97; 98; 10; 121]%N)
  | _ => (Err ESyntax, Err ESyntax)
  end = (Ok true, Ok false).
Proof. vm_compute. reflexivity. Qed.

(* C16 on the grammar: the flag Regex::new computes is exactly "the specification says the regex
   matches the empty string" *)
Theorem grammar_nullable_exact xpath a fls :
  ok_a xpath a = true -> existsb (N.eqb 59) fls = false ->
  match spec_flags xpath fls with
  | Valid sf =>
      s_q sf = false -> s_x sf = false ->
      exists re r, regex_new true xpath (show_a a) fls = Ok re /\ spec_parse xpath (show_a a) = Valid r
                   /\ r_nullable re = spec_is_match sf [] r
  | _ => True
  end.
Proof.
  intros Hok Hsep.
  pose proof (grammar_end_to_end xpath a fls [] Hok Hsep (eq_refl : (N.of_nat (length (@nil N)) < umax)%N) valid_nil) as G.
  destruct (spec_flags xpath fls) as [sf| |]; try exact I.
  intros Hq Hx. destruct (G Hq Hx) as (re & r & E & Er & Em). exists re, r. split; [exact E|]. split; [exact Er|].
  destruct (nullable_def true xpath (show_a a) fls re E) as (s' & Hn).
  unfold is_match in Em. rewrite Hn in Em. destruct (r_nullable re); cbn [mres_bool rbind] in Em; congruence.
Qed.

(* ---------------------------------------------------------------- the selected match (C02) *)
(* The match the matcher reports from offset 0 is the specification's selected match: the leftmost
   start position at which the ordered-choice semantics has a result, and its first result in
   priority order (earlier alternative first, greedy quantifier longest first, reluctant shortest
   first).  From the pattern and flag strings, on the grammar of Proofs/GroupGrammar.v. *)
Theorem grammar_selected_match xpath a fls input :
  ok_a xpath a = true -> existsb (N.eqb 59) fls = false -> (N.of_nat (length input) < umax)%N -> valid_in input ->
  match spec_flags xpath fls with
  | Valid sf =>
      s_q sf = false -> s_x sf = false ->
      exists re r, regex_new true xpath (show_a a) fls = Ok re /\ spec_parse xpath (show_a a) = Valid r
        /\ match matches (r_prog re) input 0 st0 with
           | MTrue s' => exists k q e, first_match sf input r (length input + 2) 0 = Some (k, q, e)
                                       /\ get_pend s' 0 = Some q
           | MFalse _ => first_match sf input r (length input + 2) 0 = None
           | MOut | MPanic _ => False
           end
  | _ => True
  end.
Proof.
  intros Hok Hsep Hfit Hval. pose proof (parse_flags_spec xpath fls Hsep) as PF. unfold regex_new.
  destruct (parse_flags xpath fls) as [fl|e| |] eqn:Efl; destruct (spec_flags xpath fls) as [sf| |] eqn:Esf;
    try contradiction; try exact I; try (destruct e; contradiction).
  destruct PF as [(A1 & A2 & A3 & A4 & A5) Hx]. intros Hsq Hsx. cbn [rbind].
  set (pat := show_a a).
  destruct (parse_expr_grammar pat xpath (f_case fl) (f_single fl) [] (f_multi fl) 0
              (eq_refl : (N.of_nat (length (@nil N)) < umax)%N) valid_nil a Hok eq_refl)
    as (top & st' & Eparse & Hi & Hb & _ & _).
  assert (Ecomp : compile true fl pat
                  = Ok (mk_program_unopt pat top (parens st') (f_case fl) (f_multi fl) false false)).
  { unfold compile. replace (f_literal fl) with false by congruence. replace (f_ws fl) with false by congruence.
    rewrite Hx, Eparse. cbn [rbind]. rewrite Hi, Nat.eqb_refl, Hb. reflexivity. }
  rewrite Ecomp. cbn [rbind].
  set (prog := mk_program_unopt pat top (parens st') (f_case fl) (f_multi fl) false false).
  assert (Hun : p_hasbol prog = false /\ p_minlen prog = 0%N /\ p_prefix prog = None /\ p_icc prog = None /\ p_pre prog = [])
    by (repeat split; reflexivity).
  assert (Facts : forall inp, (N.of_nat (length inp) < umax)%N -> valid_in inp -> simple inp (f_case fl) (f_multi fl) false (parens st') top
                   /\ (forall p, p <= length inp -> Rop inp (f_case fl) (f_multi fl) top p = DaO inp (f_case fl) (f_multi fl) (f_single fl) a p)).
  { intros inp Hfi Hvi. destruct (parse_expr_grammar pat xpath (f_case fl) (f_single fl) inp (f_multi fl) (parens st') Hfi Hvi a Hok eq_refl)
      as (top' & st'' & Eparse' & _ & _ & G & _ & _ & S0 & _).
    rewrite Eparse in Eparse'. injection Eparse' as <- <-. split; [exact G|exact S0]. }
  pose proof (fragment_no_panic_no_out prog [] (proj1 (Facts [] eq_refl valid_nil)) Hun 0 st0 (le_n 0) eq_refl) as NP0.
  destruct (matches prog [] 0 st0) as [s0|s0| |k0]; try contradiction; cbn [mres_bool rbind].
  all: destruct (spec_parse_grammar xpath input sf Hfit Hval a Hok) as (r & Espec & _ & Sr).
  all: eexists; exists r; split; [reflexivity|]; split; [exact Espec|]; cbn [r_prog].
  all: assert (E : forall m, m <= length input ->
            map fst (R sf input r m []) = Rop input (p_case prog) (p_multi prog) (p_op prog) m)
         by (intros m Hm; cbn [p_case p_multi p_op prog mk_program_unopt];
             rewrite (proj2 (Facts input Hfit Hval) m Hm), A1, A2, A3; exact (Sr m [] Hm)).
  all: pose proof (matches_unopt_spec prog input (proj1 (Facts input Hfit Hval)) Hun 0 st0 (Nat.le_0_l _) eq_refl) as M.
  all: destruct (matches prog input 0 st0) as [s'|s'| |k1]; try contradiction.
  1,3: (destruct M as (k & q & rest & Hk & Hbefore & Hat & Hq & Hpend);
        rewrite <- (E k) in Hat by lia;
        destruct (R sf input r k []) as [|[q' e'] rest'] eqn:ER; [discriminate|];
        cbn [map fst] in Hat; injection Hat as -> _;
        exists k, q, e'; split; [|exact Hpend];
        apply (first_match_spec sf input r _ 0 k q rest' e'); try lia; auto;
        intros m Hm'; specialize (Hbefore m ltac:(lia)); rewrite <- (E m) in Hbefore by lia;
        destruct (R sf input r m []); [reflexivity|discriminate]).
  all: apply first_match_none; intros m Hm'; specialize (M m ltac:(lia)); rewrite <- (E m) in M by lia;
       destruct (R sf input r m []); [reflexivity|discriminate].
Qed.

(* ---------------------------------------------------------------- flag x (C14) *)
Lemma spec_is_match_D xpath a sf input : (N.of_nat (length input) < umax)%N -> valid_in input -> ok_a xpath a = true ->
  exists r, spec_parse xpath (show_a a) = Valid r /\ spec_is_match sf input r = Dmatch input (s_i sf) (s_m sf) (s_s sf) a.
Proof.
  intros Hfit Hval Hok. destruct (spec_parse_grammar xpath input sf Hfit Hval a Hok) as (r & E & Sr & _).
  exists r. split; [exact E|]. unfold spec_is_match, Dmatch.
  assert (G : forall l, (forall m, In m l -> m <= length input) ->
            existsb (fun i => match ends sf input r i with [] => false | _ => true end) l
            = existsb (fun m => match Da input (s_i sf) (s_m sf) (s_s sf) a m with [] => false | _ => true end) l).
  { induction l as [|m t IH]; intros Hl; [reflexivity|]. cbn [existsb]. rewrite IH by (intros; apply Hl; right; auto).
    f_equal. assert (Hm : m <= length input) by (apply Hl; left; reflexivity). specialize (Sr m).
    destruct (ends sf input r m) as [|x1 t1] eqn:E1; destruct (Da input (s_i sf) (s_m sf) (s_s sf) a m) as [|x2 t2] eqn:E2; auto.
    - exfalso. apply (proj2 (Sr x2 Hm)). left. reflexivity.
    - exfalso. apply (proj1 (Sr x1 Hm)). left. reflexivity. }
  apply G. intros m Hm. apply in_seq in Hm. lia.
Qed.

(* with flag x the pattern text may contain white space: what is compiled, and what the specification
   parses, is the text with the white space outside classes removed (the model's stripper; it equals the
   specification's by C14_strip).  If that text is a pattern of the grammar, the verdicts agree. *)
Theorem grammar_x_end_to_end xpath a w fls input :
  ok_a xpath a = true -> existsb (N.eqb 59) fls = false -> (N.of_nat (length input) < umax)%N -> valid_in input ->
  strip_ws w 0%Z false = show_a a ->
  match spec_flags xpath fls with
  | Valid sf =>
      s_q sf = false -> s_x sf = true ->
      exists re r, regex_new true xpath w fls = Ok re /\ spec_parse xpath (strip_ws w 0%Z false) = Valid r
                   /\ is_match re input = Ok (spec_is_match sf input r)
  | _ => True
  end.
Proof.
  intros Hok Hsep Hfit Hval Hw. pose proof (parse_flags_spec xpath fls Hsep) as PF. unfold regex_new.
  destruct (parse_flags xpath fls) as [fl|e| |] eqn:Efl; destruct (spec_flags xpath fls) as [sf| |] eqn:Esf;
    try contradiction; try exact I; try (destruct e; contradiction).
  destruct PF as [(A1 & A2 & A3 & A4 & A5) Hx]. intros Hsq Hsx. cbn [rbind].
  rewrite (compile_x_same true fl w) by congruence. rewrite Hw.
  set (fl' := {| f_case := f_case fl; f_multi := f_multi fl; f_single := f_single fl; f_ws := false;
                 f_literal := false; f_xpath := f_xpath fl |}).
  assert (Hok' : ok_a (f_xpath fl') a = true) by (cbn [f_xpath fl']; rewrite Hx; exact Hok).
  destruct (compile_grammar_D fl' a [] Hok' eq_refl eq_refl eq_refl valid_nil) as (prog & Ec & M0).
  destruct (compile_grammar_D fl' a input Hok' eq_refl eq_refl Hfit Hval) as (prog' & Ec' & M).
  rewrite Ec in Ec'. injection Ec' as <-. rewrite Ec. cbn [rbind].
  destruct (spec_is_match_D xpath a sf input Hfit Hval Hok) as (r & Er & Es).
  destruct (matches prog [] 0 st0) as [s0|s0| |k0]; try contradiction; cbn [mres_bool rbind];
    (eexists; exists r; split; [reflexivity|]; split; [exact Er|]); unfold is_match; cbn [r_prog];
    (destruct (matches prog input 0 st0) as [s1|s1| |k1]; try contradiction; cbn [mres_bool rbind]; f_equal;
     rewrite Es, <- A1, <- A2, <- A3; symmetry; exact M).
Qed.
