(* C15 / C04: ReMatcher::replace with an arbitrary (non-literal) replacement string, over an
   abstract match function.  For a replacement the grammar accepts, the result is the input with
   every span of the scan replaced by the rendering of the parsed replacement under that match's
   groups - including across the "simple replacement" latch, which from the second match on
   appends the raw replacement text when it contained neither '$' nor '\'.  A replacement the
   grammar rejects yields the error as soon as a match is found.  Corollary: '$0' is the identity. *)
From RX Require Import Base.Prelude Spec.Repl Model.Engine Model.Matcher Model.Api Proofs.ReplProof Proofs.ScanFacts.

(* the expansion loop uses the capture function only pointwise *)
Lemma expand_loop_ext r maxc (f1 f2 : nat -> res (option (list N))) :
  (forall g, f1 g = f2 g) ->
  forall fuel i acc simple, expand_loop r maxc f1 fuel i acc simple = expand_loop r maxc f2 fuel i acc simple.
Proof.
  intros E. induction fuel as [|f IH]; intros i acc simple; cbn [expand_loop]; [reflexivity|].
  destruct (Nat.leb (length r) i); [reflexivity|].
  destruct (nth_error r i) as [ch|]; [|reflexivity].
  destruct (N.eqb ch 92).
  { destruct (Nat.leb (length r) (i + 1)); [reflexivity|].
    destruct (nth_error r (i + 1)) as [c2|]; [|reflexivity].
    destruct (N.eqb c2 92 || N.eqb c2 36); [apply IH|reflexivity]. }
  destruct (N.eqb ch 36); [|apply IH].
  destruct (Nat.leb (length r) (i + 1)); [reflexivity|].
  destruct (nth_error r (i + 1)) as [c2|]; [|reflexivity].
  destruct (negb (is_digit c2)); [reflexivity|].
  destruct (Nat.leb maxc 9).
  - destruct (Nat.leb (dval c2) maxc).
    + unfold push_cap. rewrite E. destruct (f2 (dval c2)) as [o| | |]; cbn [rbind]; try reflexivity. apply IH.
    + cbn [rbind]. apply IH.
  - destruct (digits_loop r maxc (S (length r)) (i + 1) (dval c2)) as [[i' g']|]; [|reflexivity].
    unfold push_cap. rewrite E. destruct (f2 g') as [o| | |]; cbn [rbind]; try reflexivity. apply IH.
Qed.

(* a replacement without '$' and '\' parses to itself *)
Lemma plain_parse maxc : forall fuel r, length r < fuel -> plain r = true ->
  parse_repl_f maxc fuel r = PItems (map Lit r).
Proof.
  induction fuel as [|f IH]; intros r Hl Hp; [lia|].
  destruct r as [|c t]; [reflexivity|]. cbn [parse_repl_f plain forallb map] in *.
  apply andb_true_iff in Hp as [Hc Ht]. apply andb_true_iff in Hc as [H1 H2].
  apply negb_true_iff in H1, H2. rewrite H1, H2. cbn [length] in Hl.
  rewrite IH by (auto; lia). reflexivity.
Qed.
Lemma render_lits maxc cap r : render maxc cap (map Lit r) = r.
Proof. unfold render. induction r as [|c t IH]; cbn; [reflexivity|]. f_equal. exact IH. Qed.

Section Rep.
Variable matchf : nat -> mstate -> mres.
Variable maxc : nat.
Variable input repl : list N.
Let n := length input.

Definition cap_of (s : mstate) (g : nat) : option (list N) :=
  match get_paren input s g with Ok o => o | _ => None end.

(* interface of the matcher: good_step, and the group arrays it leaves can be sliced *)
(* relative to an invariant of the matcher state (trivial in the wrappers at the end) *)
Variable Inv : mstate -> Prop.
Hypothesis G : good_step_on matchf input Inv.
Hypothesis Hcaps : forall pos s s', pos <= n -> Inv s -> matchf pos s = MTrue s' -> forall g, exists o, get_paren input s' g = Ok o.

(* the output the specification prescribes: text between matches copied, each match replaced by
   the rendering of the replacement's items under that match's groups *)
Fixpoint rep_out (its : list item) (fuel pos : nat) (s : mstate) : list N :=
  match fuel with
  | O => []
  | S f =>
      if Nat.ltb pos n then
        match matchf pos s with
        | MTrue s' =>
            match get_pstart s' 0, get_pend s' 0 with
            | Some a, Some b => slice input pos a ++ render maxc (cap_of s') its ++ rep_out its f b s'
            | _, _ => []
            end
        | _ => slice input pos n
        end
      else []
  end.

Lemma expand_valid its s' acc : parse_repl maxc repl = PItems its ->
  (forall g, exists o, get_paren input s' g = Ok o) ->
  expand repl maxc (get_paren input s') acc = Ok (acc ++ render maxc (cap_of s') its, plain repl).
Proof.
  intros Hp Hc. unfold expand.
  rewrite (expand_loop_ext repl maxc (get_paren input s') (fun g => Ok (cap_of s' g))).
  - pose proof (expand_eq_spec repl maxc (cap_of s') acc) as E. unfold expand in E. rewrite E, Hp. reflexivity.
  - intros g. unfold cap_of. destruct (Hc g) as [o Ho]. rewrite Ho. reflexivity.
Qed.

Lemma expand_invalid s' acc : parse_repl maxc repl = PInvalid ->
  (forall g, exists o, get_paren input s' g = Ok o) ->
  expand repl maxc (get_paren input s') acc = Err EInvalidRepl.
Proof.
  intros Hp Hc. unfold expand.
  rewrite (expand_loop_ext repl maxc (get_paren input s') (fun g => Ok (cap_of s' g))).
  - pose proof (expand_eq_spec repl maxc (cap_of s') acc) as E. unfold expand in E. rewrite E, Hp. reflexivity.
  - intros g. unfold cap_of. destruct (Hc g) as [o Ho]. rewrite Ho. reflexivity.
Qed.

(* from the second match on: the latch holds plain repl *)
Lemma replace_loop_rest its : parse_repl maxc repl = PItems its ->
  forall k pos s result, Inv s -> n - pos < k -> pos <= n ->
    replace_loop matchf false (S maxc) input repl (S k) pos s result false (plain repl)
    = Ok (result ++ rep_out its (S k) pos s).
Proof.
  intros Hp. induction k as [|k IH]; intros pos s result Hinv Hk Hpos; [lia|].
  remember (S k) as k1 eqn:Ek. cbn [replace_loop rep_out]. fold n. subst k1.
  destruct (Nat.ltb pos n) eqn:Lt.
  - apply Nat.ltb_lt in Lt. pose proof (G pos s Hpos Hinv) as Gp. pose proof (Hcaps pos s) as Hc.
    destruct (matchf pos s) as [s'|s'| |e]; cbn [mres_bool rbind]; try contradiction.
    + specialize (Hc s' Hpos Hinv eq_refl).
      destruct Gp as [(a & b & Ha & Hb & H1 & H2 & H3) Hinv']. rewrite Ha, Hb.
      rewrite rslice_ok by lia. cbn [rbind].
      replace (Nat.eqb b pos) with false by (symmetry; apply Nat.eqb_neq; lia).
      destruct (plain repl) eqn:Epl; cbn [negb].
      * (* raw replacement text = rendering of its items *)
        cbn [rbind]. rewrite (IH _ _ _ Hinv') by lia. f_equal.
        assert (Hits : its = map Lit repl).
        { unfold parse_repl in Hp. rewrite plain_parse in Hp by (auto; lia). injection Hp as <-. reflexivity. }
        rewrite Hits, render_lits, <- !app_assoc. reflexivity.
      * rewrite (expand_valid its s' _ Hp Hc). rewrite Epl. cbn [rbind]. rewrite (IH _ _ _ Hinv') by lia.
        rewrite <- !app_assoc. reflexivity.
    + unfold finish. rewrite rslice_ok by lia. reflexivity.
  - apply Nat.ltb_ge in Lt. unfold finish. rewrite rslice_ok by lia. cbn [rbind].
    assert (pos = n) by lia. subst pos. unfold slice. rewrite Nat.sub_diag. cbn [firstn]. reflexivity.
Qed.

Theorem replace_valid_on its s0 : Inv s0 -> parse_repl maxc repl = PItems its ->
  replace_loop matchf false (S maxc) input repl (n + 2) 0 s0 [] true false
  = Ok (rep_out its (n + 2) 0 s0).
Proof.
  intros Hinv Hp. replace (n + 2) with (S (S n)) by lia.
  remember (S n) as k1 eqn:Ek. cbn [replace_loop rep_out]. fold n. subst k1.
  destruct (Nat.ltb 0 n) eqn:Lt.
  - apply Nat.ltb_lt in Lt. pose proof (G 0 s0 (Nat.le_0_l _) Hinv) as Gp. pose proof (Hcaps 0 s0) as Hc.
    destruct (matchf 0 s0) as [s'|s'| |e]; cbn [mres_bool rbind]; try contradiction.
    + specialize (Hc s' (Nat.le_0_l _) Hinv eq_refl).
      destruct Gp as [(a & b & Ha & Hb & H1 & H2 & H3) Hinv']. rewrite Ha, Hb.
      rewrite rslice_ok by lia. cbn [rbind negb app].
      replace (Nat.eqb b 0) with false by (symmetry; apply Nat.eqb_neq; lia).
      rewrite (expand_valid its s' _ Hp Hc). cbn [rbind].
      rewrite (replace_loop_rest its Hp n b s' _ Hinv') by lia.
      rewrite <- !app_assoc. reflexivity.
    + unfold finish, slice. rewrite Nat.sub_0_r. cbn [skipn]. unfold n. rewrite firstn_all. reflexivity.
  - apply Nat.ltb_ge in Lt. unfold finish. assert (E : n = 0) by lia.
    destruct input; [reflexivity|cbn in E; discriminate].
Qed.

(* a malformed replacement is never used to produce output: the first match reports the error *)
Theorem replace_invalid_on s0 s' : Inv s0 -> parse_repl maxc repl = PInvalid -> 0 < n -> matchf 0 s0 = MTrue s' ->
  replace_loop matchf false (S maxc) input repl (n + 2) 0 s0 [] true false = Err EInvalidRepl.
Proof.
  intros Hinv Hp Hn Hm. replace (n + 2) with (S (S n)) by lia.
  remember (S n) as k1 eqn:Ek. cbn [replace_loop]. fold n. subst k1.
  replace (Nat.ltb 0 n) with true by (symmetry; apply Nat.ltb_lt; lia).
  pose proof (G 0 s0 (Nat.le_0_l _) Hinv) as Gp. pose proof (Hcaps 0 s0 s' (Nat.le_0_l _) Hinv Hm) as Hc.
  rewrite Hm in *. cbn [mres_bool rbind].
  destruct Gp as [(a & b & Ha & Hb & H1 & H2 & H3) _]. rewrite Ha.
  rewrite rslice_ok by lia. cbn [rbind negb app].
  rewrite (expand_invalid s' _ Hp Hc). reflexivity.
Qed.

(* '$0' : every match is replaced by itself *)
Hypothesis Hcap0 : forall pos s s' a b, pos <= n -> Inv s -> matchf pos s = MTrue s' ->
  get_pstart s' 0 = Some a -> get_pend s' 0 = Some b -> get_paren input s' 0 = Ok (Some (slice input a b)).

Lemma slice_cat a b c : a <= b -> b <= c -> c <= n -> slice input a b ++ slice input b c = slice input a c.
Proof.
  intros H1 H2 H3. unfold slice.
  replace (c - a) with ((b - a) + (c - b)) by lia.
  assert (F : forall (l : list N) x y, firstn (x + y) l = firstn x l ++ firstn y (skipn x l)).
  { induction l as [|h t IH]; intros [|x] y; cbn [firstn skipn Nat.add app]; try reflexivity.
    - destruct y; reflexivity.
    - rewrite IH. reflexivity. }
  assert (S : forall (l : list N) x y, skipn x (skipn y l) = skipn (x + y) l).
  { induction l as [|h t IH]; intros x [|y]; rewrite ?Nat.add_0_r; cbn [skipn]; try reflexivity.
    - destruct x; reflexivity.
    - rewrite IH. replace (x + S y) with (S (x + y)) by lia. reflexivity. }
  rewrite F, S. replace (b - a + a) with b by lia. reflexivity.
Qed.

Lemma rep_out_dollar0 : forall k pos s, Inv s -> n - pos < k -> pos <= n ->
  rep_out [Grp 0] (S k) pos s = slice input pos n.
Proof.
  induction k as [|k IH]; intros pos s Hinv Hk Hpos; [lia|].
  remember (S k) as k1 eqn:Ek. cbn [rep_out]. fold n. subst k1.
  destruct (Nat.ltb pos n) eqn:Lt.
  - apply Nat.ltb_lt in Lt. pose proof (G pos s Hpos Hinv) as Gp. pose proof (Hcap0 pos s) as Hc.
    destruct (matchf pos s) as [s'|s'| |e]; try contradiction; [|reflexivity].
    destruct Gp as [(a & b & Ha & Hb & H1 & H2 & H3) Hinv']. rewrite Ha, Hb.
    specialize (Hc s' a b Hpos Hinv eq_refl Ha Hb).
    unfold render. cbn [flat_map Nat.leb]. unfold cap_of. rewrite Hc. rewrite app_nil_r.
    rewrite (IH _ _ Hinv') by lia. rewrite slice_cat by lia. rewrite slice_cat by lia. reflexivity.
  - apply Nat.ltb_ge in Lt. assert (pos = n) by lia. subst pos. unfold slice. rewrite Nat.sub_diag. reflexivity.
Qed.

Theorem replace_dollar0_identity_on s0 : Inv s0 -> repl = [36; 48]%N ->
  replace_loop matchf false (S maxc) input repl (n + 2) 0 s0 [] true false = Ok input.
Proof.
  intros Hinv E. rewrite (replace_valid_on [Grp 0] s0 Hinv).
  - replace (n + 2) with (S (S n)) by lia. rewrite rep_out_dollar0 by (auto; lia).
    unfold slice. rewrite Nat.sub_0_r. cbn [skipn]. unfold n. rewrite firstn_all. reflexivity.
  - rewrite E. unfold parse_repl. cbn. destruct (Nat.leb maxc 9); reflexivity.
Qed.
End Rep.

(* ---------- the instances with the trivial invariant ---------- *)
Theorem replace_valid matchf maxc input repl (G : good_step matchf input)
  (Hcaps : forall pos s s', pos <= length input -> matchf pos s = MTrue s' -> forall g, exists o, get_paren input s' g = Ok o)
  its s0 : parse_repl maxc repl = PItems its ->
  replace_loop matchf false (S maxc) input repl (length input + 2) 0 s0 [] true false
  = Ok (rep_out matchf maxc input its (length input + 2) 0 s0).
Proof.
  apply (replace_valid_on matchf maxc input repl (fun _ => True) (good_step_trivial _ _ G)
           (fun pos s s' Hp _ E => Hcaps pos s s' Hp E) its s0 I).
Qed.
Theorem replace_invalid matchf maxc input repl (G : good_step matchf input)
  (Hcaps : forall pos s s', pos <= length input -> matchf pos s = MTrue s' -> forall g, exists o, get_paren input s' g = Ok o)
  s0 s' : parse_repl maxc repl = PInvalid -> 0 < length input -> matchf 0 s0 = MTrue s' ->
  replace_loop matchf false (S maxc) input repl (length input + 2) 0 s0 [] true false = Err EInvalidRepl.
Proof.
  apply (replace_invalid_on matchf maxc input repl (fun _ => True) (good_step_trivial _ _ G)
           (fun pos s s' Hp _ E => Hcaps pos s s' Hp E) s0 s' I).
Qed.
Theorem replace_dollar0_identity matchf maxc input repl (G : good_step matchf input)
  (Hcaps : forall pos s s', pos <= length input -> matchf pos s = MTrue s' -> forall g, exists o, get_paren input s' g = Ok o)
  (Hcap0 : forall pos s s' a b, pos <= length input -> matchf pos s = MTrue s' ->
     get_pstart s' 0 = Some a -> get_pend s' 0 = Some b -> get_paren input s' 0 = Ok (Some (slice input a b)))
  s0 : repl = [36; 48]%N ->
  replace_loop matchf false (S maxc) input repl (length input + 2) 0 s0 [] true false = Ok input.
Proof.
  apply (replace_dollar0_identity_on matchf maxc input repl (fun _ => True) (good_step_trivial _ _ G)
           (fun pos s s' Hp _ E => Hcaps pos s s' Hp E)
           (fun pos s s' a b Hp _ E => Hcap0 pos s s' a b Hp E) s0 I).
Qed.
