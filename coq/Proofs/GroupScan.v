(* The spans the scan loop of tokenize / replace_all / analyze visits are the specification's spans:
   on the grammar of Proofs/GroupGrammar.v, for a regex that does not match the empty string, the
   list of (start, end) pairs the model's loop goes through equals, element by element, the list
   the specification builds from its selected matches; so the tokens are the pieces of the input
   between the specification's spans.  From the pattern and flag strings. *)
From RX Require Import Base.Prelude Base.InvList Tables.Consts Model.Case Model.Op Model.Engine Model.Matcher
     Model.Compiler Model.Api Spec.Syntax Spec.Sem Spec.Parse Proofs.EngineFacts Proofs.MatcherFacts
     Proofs.EngineCorollaries Proofs.SmallFacts Proofs.NullableFacts Proofs.ScanFacts Proofs.OrderFacts
     Proofs.FrameFacts Proofs.FragmentApi Proofs.PlainPattern Proofs.GroupGrammar Proofs.GroupSpec Spec.Repl Proofs.ReplacePlain.

Definition span_of (x : nat * nat * env) : nat * nat := (fst (fst x), snd (fst x)).

Lemma filter_true_all {A} (f : A -> bool) (l : list A) : (forall x, In x l -> f x = true) -> filter f l = l.
Proof.
  induction l as [|x t IH]; intros H; [reflexivity|]. cbn [filter]. rewrite (H x (or_introl eq_refl)), IH; [reflexivity|].
  intros y Hy. apply H. right. exact Hy.
Qed.

Section SS.
Variable prog : program.
Variable input : list N.
Variable sf : sflags.
Variable r : re.
Let n := length input.
Let Rp := Rop input (p_case prog) (p_multi prog) (p_op prog).
Hypothesis Hsimple : simple input (p_case prog) (p_multi prog) (p_hasbackrefs prog) (p_maxparens prog) (p_op prog).
Hypothesis Hframed : framed (p_op prog).
Hypothesis Hunopt : p_hasbol prog = false /\ p_minlen prog = 0%N /\ p_prefix prog = None
                    /\ p_icc prog = None /\ p_pre prog = [].
Hypothesis Hsimple0 : simple [] (p_case prog) (p_multi prog) (p_hasbackrefs prog) (p_maxparens prog) (p_op prog).
Hypothesis Hnonnull : forall s', matches prog [] 0 st0 <> MTrue s'.
Hypothesis HE : forall m, m <= n -> map fst (R sf input r m []) = Rp m.

Lemma sel pos s : pos <= n -> minv s ->
  match matches prog input pos s with
  | MTrue s' => exists k q e, first_match sf input r (n + 2) pos = Some (k, q, e)
                              /\ get_pstart s' 0 = Some k /\ get_pend s' 0 = Some q
                              /\ pos <= k /\ k < q /\ q <= n /\ minv s'
  | MFalse s' => first_match sf input r (n + 2) pos = None /\ minv s'
  | MOut | MPanic _ => False
  end.
Proof.
  intros Hpos Hinv. pose proof (matches_span prog input Hsimple Hframed Hunopt pos s Hpos Hinv) as M.
  pose proof (fragment_good_step prog input Hsimple Hframed Hunopt Hsimple0 Hnonnull pos s Hpos Hinv) as G.
  fold n in M, G. fold Rp in M.
  destruct (matches prog input pos s) as [s'|s'| |k0]; try contradiction.
  - destruct M as (k & q & rest & Hk & Hbefore & Hat & Hq & P1 & P2 & Hinv').
    destruct G as [(a & b & Pa & Pb & H1 & H2 & H3) _].
    rewrite P1 in Pa. rewrite P2 in Pb. injection Pa as <-. injection Pb as <-.
    rewrite <- (HE k) in Hat by lia.
    destruct (R sf input r k []) as [|[q' e'] rest'] eqn:ER; [discriminate|].
    cbn [map fst] in Hat. injection Hat as -> _.
    exists k, q, e'. split.
    + apply (first_match_spec sf input r _ pos k q rest' e'); fold n; try lia; auto.
      intros m Hm'. specialize (Hbefore m ltac:(lia)). rewrite <- (HE m) in Hbefore by lia.
      destruct (R sf input r m []); [reflexivity|discriminate].
    + repeat split; auto.
  - destruct M as [Hb Hinv']. split; [|exact Hinv'].
    apply first_match_none. fold n. intros m Hm'. specialize (Hb m ltac:(lia)). rewrite <- (HE m) in Hb by lia.
    destruct (R sf input r m []); [reflexivity|discriminate].
Qed.

Theorem scan_spans : forall fuel pos s, pos <= n -> minv s -> n - pos < fuel ->
  scan (matches prog input) input fuel pos s = map span_of (spans_from sf input r fuel pos).
Proof.
  induction fuel as [|f IH]; intros pos s Hpos Hinv Hf; [lia|].
  cbn [scan spans_from]. fold n. pose proof (sel pos s Hpos Hinv) as S.
  destruct (Nat.ltb pos n) eqn:Lt.
  - apply Nat.ltb_lt in Lt.
    destruct (matches prog input pos s) as [s'|s'| |k0]; try contradiction.
    + destruct S as (k & q & e & Fm & P1 & P2 & H1 & H2 & H3 & Hinv'). rewrite Fm, P1, P2.
      replace (Nat.eqb q k) with false by (symmetry; apply Nat.eqb_neq; lia).
      cbn [map span_of fst snd]. f_equal. apply IH; auto; lia.
    + destruct S as [Fm _]. rewrite Fm. reflexivity.
  - apply Nat.ltb_ge in Lt. assert (pos = n) by lia. subst pos.
    destruct (matches prog input n s) as [s'|s'| |k0]; try contradiction.
    + destruct S as (k & q & e & _ & _ & _ & H1 & H2 & H3 & _). lia.
    + destruct S as [Fm _]. rewrite Fm. reflexivity.
Qed.

(* every span starts inside the input, so the filter of spec_spans keeps all of them *)
Lemma spans_inside : forall fuel pos s, pos <= n -> minv s -> n - pos < fuel ->
  forall x, In x (spans_from sf input r fuel pos) -> fst (fst x) < n.
Proof.
  induction fuel as [|f IH]; intros pos s Hpos Hinv Hf x Hx; [lia|].
  cbn [spans_from] in Hx. fold n in Hx. pose proof (sel pos s Hpos Hinv) as S.
  destruct (matches prog input pos s) as [s'|s'| |k0]; try contradiction.
  - destruct S as (k & q & e & Fm & P1 & P2 & H1 & H2 & H3 & Hinv'). rewrite Fm in Hx.
    destruct Hx as [<-|Hx]; [cbn; lia|].
    destruct (Nat.ltb pos n) eqn:Lt; [|destruct Hx]. apply Nat.ltb_lt in Lt.
    replace (Nat.eqb q k) with false in Hx by (symmetry; apply Nat.eqb_neq; lia).
    apply (IH q s'); auto; lia.
  - destruct S as [Fm _]. rewrite Fm in Hx. destruct Hx.
Qed.

Theorem scan_spec_spans : scan (matches prog input) input (n + 2) 0 st0 = map span_of (spec_spans sf input r).
Proof.
  rewrite (scan_spans (n + 2) 0 st0 (Nat.le_0_l _) eq_refl ltac:(lia)). unfold spec_spans. fold n.
  f_equal. symmetry. apply filter_true_all. intros x Hx.
  pose proof (spans_inside (n + 2) 0 st0 (Nat.le_0_l _) eq_refl ltac:(lia) x Hx) as H.
  apply orb_true_iff. left. apply Nat.ltb_lt. exact H.
Qed.
End SS.

Theorem grammar_tokens_are_spec_pieces xpath a fls input :
  ok_a xpath a = true -> existsb (N.eqb 59) fls = false -> (N.of_nat (length input) < umax)%N -> valid_in input ->
  match spec_flags xpath fls with
  | Valid sf =>
      s_q sf = false -> s_x sf = false ->
      exists re r, regex_new true xpath (show_a a) fls = Ok re /\ spec_parse xpath (show_a a) = Valid r
        /\ (r_nullable re = false ->
            scan (matches (r_prog re) input) input (length input + 2) 0 st0 = map span_of (spec_spans sf input r)
            /\ tok_all (matches (r_prog re) input) input (S (S (S (length input)))) {| t_prev := Some 0; t_ms := st0 |}
               = Ok (pieces input (map span_of (spec_spans sf input r)) 0)
            /\ (forall repl, plain repl = true ->
                  replace_all re input repl = Ok (join repl (pieces input (map span_of (spec_spans sf input r)) 0))))
  | _ => True
  end.
Proof.
  intros Hok Hsep Hfit Hval. pose proof (parse_flags_spec xpath fls Hsep) as PF. unfold regex_new.
  destruct (parse_flags xpath fls) as [fl|e| |] eqn:Efl; destruct (spec_flags xpath fls) as [sf| |] eqn:Esf;
    try contradiction; try exact I; try (destruct e; contradiction).
  destruct PF as [(A1 & A2 & A3 & A4 & A5) Hx]. intros Hsq Hsx. cbn [rbind].
  set (pat := show_a a).
  destruct (parse_expr_grammar pat xpath (f_case fl) (f_single fl) [] (f_multi fl) 0
              (eq_refl : (N.of_nat (length (@nil N)) < umax)%N) valid_nil a Hok eq_refl)
    as (top & st' & Eparse & Hi & Hb & _ & _ & Hfr & _ & Hps).
  assert (Ecomp : compile true fl pat
                  = Ok (mk_program_unopt pat top (parens st') (f_case fl) (f_multi fl) false false)).
  { unfold compile. replace (f_literal fl) with false by congruence. replace (f_ws fl) with false by congruence.
    rewrite Hx, Eparse. cbn [rbind]. rewrite Hi, Nat.eqb_refl, Hb. reflexivity. }
  rewrite Ecomp. cbn [rbind].
  set (prog := mk_program_unopt pat top (parens st') (f_case fl) (f_multi fl) false false).
  assert (Hun : p_hasbol prog = false /\ p_minlen prog = 0%N /\ p_prefix prog = None /\ p_icc prog = None /\ p_pre prog = [])
    by (repeat split; reflexivity).
  assert (Facts : forall inp, (N.of_nat (length inp) < umax)%N -> valid_in inp -> simple inp (f_case fl) (f_multi fl) false (parens st') top
                   /\ (forall p, p <= length inp -> Rop inp (f_case fl) (f_multi fl) top p = DaO inp (f_case fl) (f_multi fl) (f_single fl) a p)).
  { intros inp Hfi Hvi. destruct (parse_expr_grammar pat xpath (f_case fl) (f_single fl) inp (f_multi fl) (parens st') Hfi Hvi a Hok eq_refl)
      as (top' & st'' & Eparse' & _ & _ & G & _ & _ & S0 & _).
    rewrite Eparse in Eparse'. injection Eparse' as <- <-. split; [exact G|exact S0]. }
  pose proof (fragment_no_panic_no_out prog [] (proj1 (Facts [] eq_refl valid_nil)) Hun 0 st0 (le_n 0) eq_refl) as NP0.
  destruct (spec_parse_grammar xpath input sf Hfit Hval a Hok) as (r & Espec & _ & Sr).
  destruct (matches prog [] 0 st0) as [s0|s0| |k0] eqn:E0; try contradiction; cbn [mres_bool rbind];
    (eexists; exists r; split; [reflexivity|]; split; [exact Espec|]); cbn [r_nullable r_prog]; intros Hn; [discriminate|].
  assert (Hnn : forall s', matches prog [] 0 st0 <> MTrue s') by (intros s' Es; rewrite E0 in Es; discriminate).
  assert (HE : forall m, m <= length input ->
            map fst (R sf input r m []) = Rop input (p_case prog) (p_multi prog) (p_op prog) m).
  { intros m Hm. cbn [p_case p_multi p_op prog mk_program_unopt].
    rewrite (proj2 (Facts input Hfit Hval) m Hm), A1, A2, A3. exact (Sr m [] Hm). }
  pose proof (scan_spec_spans prog input sf r (proj1 (Facts input Hfit Hval)) Hfr Hun (proj1 (Facts [] eq_refl valid_nil)) Hnn HE) as SS.
  split; [exact SS|]. split.
  { rewrite (fragment_tokenize prog input (proj1 (Facts input Hfit Hval)) Hfr Hun (proj1 (Facts [] eq_refl valid_nil)) Hnn
               (S (length input)) 0 st0 eq_refl ltac:(lia) ltac:(lia)).
    replace (S (S (length input))) with (length input + 2) by lia. rewrite SS. reflexivity. }
  intros repl Hpl. unfold replace_all, replace, replace_gen. cbn [r_nullable r_prog p_literal p_maxparens prog mk_program_unopt].
  destruct (parens st') as [|maxc] eqn:Ep; [lia|].
  rewrite (replace_plain (matches prog input) maxc input repl minv
             (fragment_good_step prog input (proj1 (Facts input Hfit Hval)) Hfr Hun (proj1 (Facts [] eq_refl valid_nil)) Hnn) Hpl st0 eq_refl).
  rewrite SS. reflexivity.
Qed.

(* C05 on the grammar: no call panics, runs out of fuel or reports an internal error - Regex::new
   answers Ok (or InvalidFlags for a flag string the specification rejects), is_match answers Ok, and for
   a regex not flagged nullable tokenize and replace_all with a plain replacement answer Ok *)
Theorem grammar_total xpath a fls input :
  ok_a xpath a = true -> existsb (N.eqb 59) fls = false -> (N.of_nat (length input) < umax)%N -> valid_in input ->
  match spec_flags xpath fls with
  | Valid sf =>
      s_q sf = false -> s_x sf = false ->
      exists re b, regex_new true xpath (show_a a) fls = Ok re /\ is_match re input = Ok b
        /\ (r_nullable re = false ->
            (exists l, tok_all (matches (r_prog re) input) input (S (S (S (length input)))) {| t_prev := Some 0; t_ms := st0 |} = Ok l)
            /\ (forall repl, plain repl = true -> exists out, replace_all re input repl = Ok out))
  | Invalid => regex_new true xpath (show_a a) fls = Err EInvalidFlags
  | Unspecified => True
  end.
Proof.
  intros Hok Hsep Hfit Hval.
  pose proof (grammar_end_to_end xpath a fls input Hok Hsep Hfit Hval) as G1.
  pose proof (grammar_tokens_are_spec_pieces xpath a fls input Hok Hsep Hfit Hval) as G2.
  destruct (spec_flags xpath fls) as [sf| |]; auto.
  intros Hq Hx. destruct (G1 Hq Hx) as (re & r & E & _ & Em). destruct (G2 Hq Hx) as (re' & r' & E' & _ & T).
  rewrite E in E'. injection E' as <-.
  exists re, (spec_is_match sf input r). split; [exact E|]. split; [exact Em|].
  intros Hn. destruct (T Hn) as (_ & Tk & Rp). split; [eauto|]. intros repl Hp. eexists. apply Rp. exact Hp.
Qed.
