(* C08, what the compiler's disjointness decision rests on when the term after a repeat is not a leaf:
   the follower's first-character set (get_initial_character_class of Choice and Sequence - the latter
   walks the sequence as long as its terms can match the empty string) and matches_empty_string.  Both
   are sound, case-sensitively, on terms built from literals, classes, anchors, groups, alternations
   and sequences: every match of such a term either is empty or starts with a character of its
   first-character set (icc_sound), and a term that matches the empty string somewhere is not
   classified "never" (mes_sound).  Hence, for such a follower, no_ambiguity = true implies the semantic
   condition of UnambFacts.seq_unamb_same, and the rewriting GreedyFixed / ReluctantFixed ->
   UnambiguousRepeat leaves the results of the sequence unchanged, as lists. *)
From RX Require Import Base.Prelude Base.InvList.
From RX Require Import Tables.Consts Model.Case Model.Op Model.Engine Model.Matcher Model.Api.
From RX Require Import Proofs.EngineFacts Proofs.LengthFacts Proofs.LowerFacts Proofs.FragmentSpec Proofs.QuantFacts Proofs.FixedFacts
     Proofs.InvListFacts Proofs.DisjointFacts Proofs.UnambFacts.

(* the followers covered: no repetition, no back-reference; class sets well-formed, literal
   characters scalar values *)
Fixpoint foll (o : op) : Prop :=
  match o with
  | OAtom cs => match cs with [] => True | y :: _ => (y <= max_cp)%N end
  | OCls s => InvList.wf s = true
  | OBol | OEol | ONothing | OEnd => True
  | OCapture _ o' => foll o'
  | OChoice bs => (fix all l := match l with [] => True | x :: t => foll x /\ all t end) bs
  | OSeq os => (fix all l := match l with [] => True | x :: t => foll x /\ all t end) os
  | _ => False
  end.

Lemma all_In {A} (P : A -> Prop) (l : list A) :
  (fix all l := match l with [] => True | x :: t => P x /\ all t end) l -> forall x, In x l -> P x.
Proof. induction l as [|y t IH]; intros H x Hx; [destruct Hx|]. destruct H as [Hy Ht]. destruct Hx as [<-|Hx]; [exact Hy|apply IH; auto]. Qed.

Lemma lor_small a b : (a < 8 -> b < 8 -> N.lor a b < 8)%N.
Proof.
  intros Ha Hb.
  assert (A : (a = 0 \/ a = 1 \/ a = 2 \/ a = 3 \/ a = 4 \/ a = 5 \/ a = 6 \/ a = 7)%N) by lia.
  assert (B : (b = 0 \/ b = 1 \/ b = 2 \/ b = 3 \/ b = 4 \/ b = 5 \/ b = 6 \/ b = 7)%N) by lia.
  destruct A as [->|[->|[->|[->|[->|[->|[->| ->]]]]]]]; destruct B as [->|[->|[->|[->|[->|[->|[->| ->]]]]]]]; vm_compute; reflexivity.
Qed.

(* the classification of an alternation is never "never" (an alternation all of whose branches are
   "never" is classified 0: the code is conservative here) *)
Lemma mes_choice_small bs : (forall b, In b bs -> mes b = zls_never \/ (mes b < 8)%N) -> (mes (OChoice bs) < 8)%N.
Proof.
  intros H. cbn [mes].
  assert (G : forall l acc, (forall b, In b l -> mes b = zls_never \/ (mes b < 8)%N) -> (acc < 8)%N ->
            (fold_left (fun acc b => let m := mes b in if (m =? zls_never)%N then acc else N.lor acc m) l acc < 8)%N).
  { induction l as [|x t IH]; intros acc Hl Ha; [exact Ha|]. cbn [fold_left]. apply IH; [intros b Hb; apply Hl; right; exact Hb|].
    destruct (Hl x (or_introl eq_refl)) as [E|E].
    - rewrite E. rewrite N.eqb_refl. exact Ha.
    - destruct (N.eqb_spec (mes x) zls_never); [exact Ha|apply lor_small; assumption]. }
  apply G; [exact H|reflexivity].
Qed.

Lemma mes_range : forall o, foll o -> mes o = zls_never \/ (mes o < 8)%N.
Proof.
  induction o using op_ind2; intros Hf; cbn [foll] in Hf; try contradiction; cbn [mes].
  - right. reflexivity.
  - right. reflexivity.
  - right. reflexivity.
  - right. reflexivity.
  - destruct cs; [right; reflexivity|left; reflexivity].
  - left. reflexivity.
  - apply IHo. exact Hf.
  - right. apply mes_choice_small. intros b Hb.
    assert (Hfb : foll b).
    { clear H. induction bs as [|x t IHt]; [destruct Hb|]. destruct Hf as [Hx Ht]. destruct Hb as [<-|Hb]; [exact Hx|apply IHt; auto]. }
    rewrite Forall_forall in H. apply H; assumption.
  - (* Seq *)
    set (ms := map mes os).
    match goal with |- context [match ?F ms with _ => _ end] => destruct (F ms) as [|p] end;
      [right; reflexivity|].
    destruct p as [p|p|]; try (destruct (forallb _ ms); [right; reflexivity|destruct (forallb _ ms); right; reflexivity]).
    left. reflexivity.
Qed.

Section Amb.
Variable input : list N.
Variable multi hb : bool.
Variable K : nat.
Let n := length input.
Let Rop := Rop input false multi.
Let simp := simple input false multi hb K.
Hypothesis Hscalar : forall p ch, nth_error input p = Some ch -> is_scalar ch = true.

Lemma scalar_le ch : is_scalar ch = true -> (ch <= max_cp)%N.
Proof.
  unfold is_scalar. intros H. apply orb_true_iff in H as [H|H].
  - apply N.ltb_lt in H. unfold max_cp. lia.
  - apply andb_true_iff in H as [_ H]. apply N.leb_le in H. exact H.
Qed.

Lemma Rop_mono o p q : simp o -> In q (Rop o p) -> p <= q.
Proof. intros Hs Hq. exact (proj1 (min_length_sound input false multi hb K o Hs p q Hq)). Qed.

(* the first-character sets are well-formed sets *)
Lemma icc_wf : forall o, foll o -> InvList.wf (icc false o) = true.
Proof.
  induction o using op_ind2; intros Hf; cbn [foll] in Hf; try contradiction; cbn [icc]; try apply wf_all.
  - destruct cs as [|y t]; [apply wf_empty|]. unfold add_char. apply wf_add_range0; [apply wf_empty|lia|exact Hf].
  - exact Hf.
  - (* Choice *)
    assert (G : forall l acc, Forall (fun b => foll b -> InvList.wf (icc false b) = true) l ->
              (fix all l := match l with [] => True | x :: t => foll x /\ all t end) l ->
              InvList.wf acc = true -> InvList.wf (fold_left (fun acc b => union acc (icc false b)) l acc) = true).
    { induction l as [|x t IHt]; intros acc HF Hall Ha; [exact Ha|]. cbn [fold_left]. destruct Hall as [Hx Ht].
      inversion HF as [|? ? Hx' Ht']; subst. apply IHt; auto. apply wf_union; auto. }
    apply G; auto using wf_empty.
  - (* Seq *)
    assert (G : forall l acc, Forall (fun b => foll b -> InvList.wf (icc false b) = true) l ->
              (fix all l := match l with [] => True | x :: t => foll x /\ all t end) l ->
              InvList.wf acc = true ->
              InvList.wf ((fix go (l : list op) (acc : cset) : cset :=
                     match l with
                     | [] => acc
                     | x :: t => let acc' := union acc (icc false x) in
                                 if (mes x =? zls_never)%N then acc' else go t acc'
                     end) l acc) = true).
    { induction l as [|x t IHt]; intros acc HF Hall Ha; [exact Ha|]. destruct Hall as [Hx Ht].
      inversion HF as [|? ? Hx' Ht']; subst. cbv zeta.
      assert (W : InvList.wf (union acc (icc false x)) = true) by (apply wf_union; auto).
      destruct (mes x =? zls_never)%N; [exact W|apply IHt; auto]. }
    apply G; auto using wf_empty.
Qed.

Lemma seq_go_mono : forall l m q, (fix all l := match l with [] => True | x :: t => simp x /\ all t end) l ->
  In q (seq_go input false multi l m) -> m <= q.
Proof.
  induction l as [|y l' IH]; intros m q Hl Hq; [destruct Hq|]. destruct Hl as [Hy Hl]. destruct l' as [|z l''].
  - eapply Rop_mono; eauto.
  - change (seq_go input false multi (y :: z :: l'') m) with (flat_map (seq_go input false multi (z :: l'')) (Rop y m)) in Hq.
    apply in_flat_map in Hq as (m' & Hm' & Hq). assert (m <= m') by (eapply Rop_mono; eauto).
    assert (m' <= q) by (apply (IH m' q Hl Hq)). lia.
Qed.

(* the part of a sequence's results that did not move: every term matched the empty string there *)
Lemma seq_stays : forall os p, (fix all l := match l with [] => True | x :: t => simp x /\ all t end) os -> os <> [] ->
  In p (seq_go input false multi os p) -> forall x, In x os -> In p (Rop x p).
Proof.
  induction os as [|o1 t IH]; intros p Hall Hne Hp x Hx; [contradiction|]. destruct Hall as [H1 Ht].
  destruct t as [|o2 t'].
  - destruct Hx as [<-|[]]. exact Hp.
  - change (seq_go input false multi (o1 :: o2 :: t') p) with (flat_map (seq_go input false multi (o2 :: t')) (Rop o1 p)) in Hp.
    apply in_flat_map in Hp as (m & Hm & Hp).
    assert (Hpm : p <= m) by (eapply Rop_mono; eauto).
    assert (Hmp : m <= p) by (apply (seq_go_mono (o2 :: t') m p Ht Hp)).
    assert (m = p) by lia. subst m.
    destruct Hx as [<-|Hx]; [exact Hm|]. apply (IH p Ht ltac:(discriminate) Hp x Hx).
Qed.

(* matches_empty_string is sound: a term that matches the empty string at some position is not "never" *)
Lemma mes_sound : forall o, foll o -> simp o -> forall p, In p (Rop o p) -> mes o <> zls_never.
Proof.
  induction o using op_ind2; intros Hf Hs p Hp; cbn [foll] in Hf; try contradiction; cbn [mes]; try discriminate.
  - (* Atom *) destruct cs as [|y t]; [discriminate|]. exfalso. unfold Rop in Hp. cbn [EngineFacts.Rop length] in Hp.
    destruct (Nat.ltb _ _); [destruct Hp|]. destruct (starts_with _ _ _); [|destruct Hp]. destruct Hp as [E|[]]. lia.
  - (* Cls *) exfalso. unfold Rop in Hp. cbn [EngineFacts.Rop] in Hp. destruct (nth_error input p); [|destruct Hp].
    match type of Hp with In _ (if ?c then _ else _) => destruct c end; [|destruct Hp]. destruct Hp as [E|[]]. lia.
  - (* Capture *) exact (IHo Hf ltac:(unfold simp in Hs; cbn [simple] in Hs; tauto) p Hp).
  - (* Choice *)
    assert (L : (mes (OChoice bs) < 8)%N).
    { apply mes_choice_small. intros b Hb. apply mes_range.
      clear H Hs Hp. induction bs as [|x t IHt]; [destruct Hb|]. destruct Hf as [Hx Ht]. destruct Hb as [<-|Hb]; [exact Hx|apply IHt; auto]. }
    cbn [mes] in L. intros E. rewrite E in L. vm_compute in L. discriminate.
  - (* Seq *)
    unfold simp in Hs. cbn [simple] in Hs. destruct Hs as [Hne Hall].
    assert (Hstay : forall x, In x os -> In p (Rop x p)) by (apply (seq_stays os p Hall Hne Hp)).
    assert (Hnv : forall x, In x os -> mes x <> zls_never).
    { intros x Hx. rewrite Forall_forall in H.
      exact (H x Hx (all_In foll os Hf x Hx) (all_In simp os Hall x Hx) p (Hstay x Hx)). }
    set (ms := map mes os).
    assert (F1 : (fix first_loop (l : list N) : N :=
                    match l with
                    | [] => 0
                    | m :: t => if m =? zls_never then 1 else if negb (m =? zls_any) then 2 else first_loop t
                    end)%N ms <> 1%N).
    { subst ms. clear - Hnv. induction os as [|x t IHt]; cbn [map]; [discriminate|].
      destruct (N.eqb_spec (mes x) zls_never) as [E|_]; [exfalso; apply (Hnv x); [left; reflexivity|exact E]|].
      destruct (negb (mes x =? zls_any)%N); [discriminate|]. apply IHt. intros y Hy. apply Hnv. right. exact Hy. }
    match goal with |- context [match ?F ms with _ => _ end] => destruct (F ms) as [|q] eqn:EF end; [discriminate|].
    destruct q as [q|q|]; try (destruct (forallb _ ms); [discriminate|destruct (forallb _ ms); discriminate]).
    contradiction.
Qed.

(* get_initial_character_class is sound: a match is empty or starts with a character of the set *)
Lemma mem_fold_union ch : forall (l : list op) acc,
  (forall b, In b l -> InvList.wf (icc false b) = true) -> InvList.wf acc = true ->
  (mem acc ch = true \/ exists b, In b l /\ mem (icc false b) ch = true) ->
  mem (fold_left (fun acc b => union acc (icc false b)) l acc) ch = true.
Proof.
  induction l as [|x t IH]; intros acc Hw Ha Hm; cbn [fold_left].
  - destruct Hm as [Hm|(b & [] & _)]. exact Hm.
  - apply IH; [intros b Hb; apply Hw; right; exact Hb|apply wf_union; [exact Ha|apply Hw; left; reflexivity]|].
    destruct Hm as [Hm|(b & [<-|Hb] & Hm)].
    + left. rewrite mem_union; [|apply wf_ok; exact Ha|apply wf_ok; apply Hw; left; reflexivity]. rewrite Hm. reflexivity.
    + left. rewrite mem_union; [|apply wf_ok; exact Ha|apply wf_ok; apply Hw; left; reflexivity]. rewrite Hm. apply orb_true_r.
    + right. exists b. auto.
Qed.

Lemma go_grows : forall l a c, InvList.wf a = true ->
  (fix all l := match l with [] => True | x :: t => foll x /\ all t end) l ->
  mem a c = true ->
  mem ((fix go (l : list op) (acc : cset) : cset :=
          match l with
          | [] => acc
          | x :: t => let acc' := union acc (icc false x) in
                      if (mes x =? zls_never)%N then acc' else go t acc'
          end) l a) c = true.
Proof.
  induction l as [|z l' IHl]; intros a c Hwa Hfl' Hc; [exact Hc|]. destruct Hfl' as [Hfz Hfl']. cbv zeta.
  assert (Hu : mem (union a (icc false z)) c = true).
  { rewrite mem_union; [|apply wf_ok; exact Hwa|apply wf_ok; apply icc_wf; exact Hfz]. rewrite Hc. reflexivity. }
  destruct (mes z =? zls_never)%N; [exact Hu|]. apply IHl; auto. apply wf_union; [exact Hwa|apply icc_wf; exact Hfz].
Qed.

Lemma icc_sound : forall o, foll o -> simp o -> forall p q, In q (Rop o p) ->
  q = p \/ exists ch, nth_error input p = Some ch /\ mem (icc false o) ch = true.
Proof.
  induction o using op_ind2; intros Hf Hs p q Hq; cbn [foll] in Hf; try contradiction.
  - (* Bol *) left. unfold Rop in Hq. cbn [EngineFacts.Rop] in Hq. destruct (Nat.eqb p 0); [destruct Hq as [<-|[]]; reflexivity|].
    destruct multi; [|destruct Hq]. destruct (is_nl input (p - 1) && Nat.ltb p (length input)); [destruct Hq as [<-|[]]; reflexivity|destruct Hq].
  - (* Eol *) left. unfold Rop in Hq. cbn [EngineFacts.Rop] in Hq.
    destruct multi; match type of Hq with In _ (if ?c then _ else _) => destruct c end; try (destruct Hq as [<-|[]]; reflexivity); destruct Hq.
  - left. destruct Hq as [<-|[]]. reflexivity.
  - left. destruct Hq as [<-|[]]. reflexivity.
  - (* Atom *) destruct cs as [|y t].
    + left. unfold Rop in Hq. cbn [EngineFacts.Rop length starts_with] in Hq. destruct (Nat.ltb _ _); [destruct Hq|]. destruct Hq as [<-|[]]. lia.
    + right. apply (first_char_in input multi (OAtom (y :: t)) p); [right; exact Hf|]. intros E. fold Rop in E. rewrite E in Hq. destruct Hq.
  - (* Cls *) right. apply (first_char_in input multi _ p); [right; exact Hf|]. intros E. fold Rop in E. rewrite E in Hq. destruct Hq.
  - (* Capture: the default set *)
    destruct (IHo Hf ltac:(unfold simp in Hs; cbn [simple] in Hs; tauto) p q Hq) as [->|(ch & Hch & _)]; [left; reflexivity|].
    right. exists ch. split; [exact Hch|]. cbn [icc]. apply mem_all. apply scalar_le. eapply Hscalar; eauto.
  - (* Choice *)
    unfold Rop in Hq. cbn [EngineFacts.Rop] in Hq. apply in_flat_map in Hq as (b & Hb & Hq).
    assert (Hfb : forall x, In x bs -> foll x).
    { clear - Hf. induction bs as [|y t IHt]; intros x Hx; [destruct Hx|]. destruct Hf as [Hy Ht]. destruct Hx as [<-|Hx]; [exact Hy|apply IHt; auto]. }
    assert (Hsb : forall x, In x bs -> simp x).
    { unfold simp in Hs. cbn [simple] in Hs. clear - Hs. induction bs as [|y t IHt]; intros x Hx; [destruct Hx|]. destruct Hs as [Hy Ht]. destruct Hx as [<-|Hx]; [exact Hy|apply IHt; auto]. }
    rewrite Forall_forall in H. destruct (H b Hb (Hfb b Hb) (Hsb b Hb) p q Hq) as [->|(ch & Hch & Hm)]; [left; reflexivity|].
    right. exists ch. split; [exact Hch|]. cbn [icc]. apply mem_fold_union.
    + intros x Hx. apply icc_wf. apply Hfb. exact Hx.
    + apply wf_empty.
    + right. exists b. auto.
  - (* Seq *)
    unfold simp in Hs. cbn [simple] in Hs. destruct Hs as [Hne Hall].
    change (Rop (OSeq os) p) with (seq_go input false multi os p) in Hq. cbn [icc].
    assert (G : forall l acc, l <> [] ->
              Forall (fun o => foll o -> simp o -> forall p q, In q (Rop o p) ->
                               q = p \/ exists ch, nth_error input p = Some ch /\ mem (icc false o) ch = true) l ->
              (fix all l := match l with [] => True | x :: t => foll x /\ all t end) l ->
              (fix all l := match l with [] => True | x :: t => simp x /\ all t end) l ->
              InvList.wf acc = true -> In q (seq_go input false multi l p) ->
              q = p \/ exists ch, nth_error input p = Some ch /\
                   (mem ((fix go (l : list op) (acc : cset) : cset :=
                           match l with
                           | [] => acc
                           | x :: t => let acc' := union acc (icc false x) in
                                       if (mes x =? zls_never)%N then acc' else go t acc'
                           end) l acc) ch = true \/ mem acc ch = true)).
    { induction l as [|x t IHt]; intros acc Hn HF Hfl Hsl Ha Hin; [contradiction|].
      destruct Hfl as [Hfx Hft]. destruct Hsl as [Hsx Hst]. inversion HF as [|? ? HFx HFt]; subst. cbv zeta.
      assert (W : InvList.wf (union acc (icc false x)) = true) by (apply wf_union; [exact Ha|apply icc_wf; exact Hfx]).
      assert (Grow : forall ch, mem (icc false x) ch = true \/ mem acc ch = true -> mem (union acc (icc false x)) ch = true).
      { intros ch Hm. rewrite mem_union; [|apply wf_ok; exact Ha|apply wf_ok; apply icc_wf; exact Hfx]. destruct Hm as [-> | ->]; [apply orb_true_r|reflexivity]. }
      destruct t as [|y t'].
      - (* last term *)
        destruct (HFx Hfx Hsx p q Hin) as [->|(ch & Hch & Hm)]; [left; reflexivity|].
        right. exists ch. split; [exact Hch|]. left. destruct (mes x =? zls_never)%N; apply Grow; auto.
      - change (seq_go input false multi (x :: y :: t') p) with (flat_map (seq_go input false multi (y :: t')) (Rop x p)) in Hin.
        apply in_flat_map in Hin as (m & Hm & Hin).
        destruct (HFx Hfx Hsx p m Hm) as [->|(ch & Hch & Hmem)].
        + (* the first term matched the empty string: it is not "never", the walk goes on *)
          pose proof (mes_sound x Hfx Hsx p Hm) as Hnv.
          destruct (N.eqb_spec (mes x) zls_never) as [E|_]; [contradiction|].
          destruct (IHt (union acc (icc false x)) ltac:(discriminate) HFt Hft Hst W Hin) as [->|(ch & Hch & [Hmem|Hmem])];
            [left; reflexivity|right; exists ch; split; [exact Hch|left; exact Hmem]|].
          right. exists ch. split; [exact Hch|]. left.
          (* acc' is contained in what the walk returns *)
          exact (go_grows (y :: t') (union acc (icc false x)) ch W Hft ltac:(auto)).
        + (* the first term consumed a character *)
          right. exists ch. split; [exact Hch|]. left.
          destruct (mes x =? zls_never)%N; [apply Grow; auto|].
          exact (go_grows (y :: t') (union acc (icc false x)) ch W Hft ltac:(auto)). }
    destruct (G os empty Hne H Hf Hall wf_empty Hq) as [->|(ch & Hch & [Hm|Hm])]; [left; reflexivity| |].
    + right. exists ch. auto.
    + cbn in Hm. discriminate.
Qed.

(* from the compiler's decision to semantic disjointness, for these followers *)
Theorem no_ambiguity_sound c nxt reluctant : single c -> foll nxt -> simp nxt ->
  match nxt with OEnd | OBol | OEol => False | _ => True end ->
  no_ambiguity c nxt false reluctant = true ->
  forall q, hit (Rop c) q -> Rop nxt q = [].
Proof.
  intros Hc Hf Hs Hk Hna q Hh.
  assert (Hd : mes nxt = zls_never /\ is_disjoint disjoint_threshold (icc false c) (icc false nxt) = true).
  { unfold no_ambiguity in Hna. destruct nxt; try contradiction; cbn [repeat_view] in Hna;
      (match type of Hna with (if negb (?m =? _)%N then _ else _) = true => destruct (N.eqb_spec m zls_never) as [E|E] end;
       cbn [negb] in Hna; [split; [exact E|exact Hna]|discriminate]). }
  destruct Hd as [Hnv Hd].
  destruct (Rop nxt q) as [|r t] eqn:E; [reflexivity|exfalso].
  assert (Hr : In r (Rop nxt q)) by (rewrite E; left; reflexivity).
  destruct (icc_sound nxt Hf Hs q r Hr) as [->|(ch & Hch & Hm2)].
  - exact (mes_sound nxt Hf Hs q Hr Hnv).
  - destruct (first_char_in input multi c q (or_introl Hc) Hh) as (ch' & Hch' & Hm1).
    rewrite Hch in Hch'. injection Hch' as <-.
    pose proof (is_disjoint_sound _ _ _ ch Hd (Hscalar q ch Hch) Hm2). congruence.
Qed.

(* the optimiser's rewriting step with such a follower *)
Theorem unambiguous_replacement_group c mn mx nxt rest (greedy : bool) p :
  single c -> foll nxt -> simp nxt -> match nxt with OEnd | OBol | OEol => False | _ => True end ->
  no_ambiguity c nxt false (negb greedy) = true ->
  (0 < mx)%N -> (mn <= mx)%N -> (N.of_nat n < umax)%N -> p <= n ->
  Rop (OSeq ((if greedy then OGFixed c mn mx 1 else ORFixed c mn mx 1) :: nxt :: rest)) p
  = Rop (OSeq (OUnamb c mn mx :: nxt :: rest)) p.
Proof.
  intros Hc Hf Hs Hk Hna Hmx Hmn Hfit Hp.
  assert (Hsim : simple input false multi hb K c).
  { destruct c; try contradiction; exact I. }
  apply (seq_unamb_same input false multi hb K c mn mx 1%N nxt rest greedy p Hsim); auto; try lia.
  - apply (single_one input multi). exact Hc.
  - intros q Hq Hh. pose proof (no_ambiguity_sound c nxt (negb greedy) Hc Hf Hs Hk Hna q Hh) as E.
    fold Rop in E. destruct rest as [|r1 rest']; cbn [seq_go]; fold Rop; rewrite E; reflexivity.
Qed.
End Amb.

(* non-vacuity: with the sequence  a[bc]  as the term that follows,  x*  is rewritten; with  x[bc]  it is not.
   (This compiler never rewrites before an alternation or a capturing group: it classifies an
   alternation of "never" branches as 0, and a capturing group's first-character set is "everything".
   Where the two soundness lemmas matter most in the code is a repeated group as follower -
   x*(?:ab?)+ - whose first-character set is the sequence's; variable-length repeats are outside the
   fragment the engine theorems cover, so that case stays with the correspondence.) *)
Example amb_ex : no_ambiguity (OAtom [120%N]) (OSeq [OAtom [97%N]; OCls [(98, 99)%N]]) false false = true
              /\ no_ambiguity (OAtom [120%N]) (OSeq [OAtom [120%N]; OCls [(98, 99)%N]]) false false = false
              /\ no_ambiguity (OAtom [120%N]) (OChoice [OAtom [97%N]; OAtom [98%N]]) false false = false
              /\ no_ambiguity (OAtom [120%N]) (OCapture 1 (OAtom [97%N])) false false = false
              /\ foll (OSeq [OAtom [97%N]; OCls [(98, 99)%N]]).
Proof. repeat (split; [vm_compute; reflexivity|]). cbn. unfold max_cp. repeat split; lia. Qed.
