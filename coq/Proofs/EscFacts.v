(* The class escapes \s \S \i \I \c \C \d \D \w \W: the set the compiler builds for each is, on every
   Unicode scalar value, the specification's predicate esc_mem for the escape of that letter. *)
From RX Require Import Base.Prelude Base.InvList Tables.Consts Tables.IcuGc Tables.Category Model.Compiler Spec.Syntax Spec.CharSet
     Proofs.InvListFacts Proofs.TableFacts.

Definition esc_letters : list N := [115; 83; 105; 73; 99; 67; 100; 68; 119; 87]%N.
Definition okesc (e : N) : bool := existsb (N.eqb e) esc_letters.

(* the specification's name for a class escape letter *)
Definition esc_of (e : N) : cesc :=
  if (e =? 115)%N then Es else if (e =? 83)%N then ES else if (e =? 105)%N then Ei else if (e =? 73)%N then EI
  else if (e =? 99)%N then Ec else if (e =? 67)%N then EC else if (e =? 100)%N then Ed else if (e =? 68)%N then ED
  else if (e =? 119)%N then Ew else EW.
(* the set the compiler's escape() returns for it *)
Definition esc_set (e : N) : cset :=
  if (e =? 115)%N then s_set else if (e =? 83)%N then compl s_set
  else if (e =? 105)%N then name_start_char_set else if (e =? 73)%N then compl name_start_char_set
  else if (e =? 99)%N then name_char_set else if (e =? 67)%N then compl name_char_set
  else if (e =? 100)%N then decimal_number_set else if (e =? 68)%N then compl decimal_number_set
  else if (e =? 119)%N then word_char_set else compl word_char_set.

Lemma okesc_cases e : okesc e = true ->
  e = 115%N \/ e = 83%N \/ e = 105%N \/ e = 73%N \/ e = 99%N \/ e = 67%N \/ e = 100%N \/ e = 68%N \/ e = 119%N \/ e = 87%N.
Proof.
  unfold okesc, esc_letters. cbn [existsb]. rewrite !orb_true_iff, !N.eqb_eq. intros H. repeat (destruct H as [H|H]; [auto 12|]). discriminate.
Qed.

Lemma esc_sets_wf : wf s_set && wf name_start_char_set && wf name_char_set && wf decimal_number_set && wf word_char_set = true.
Proof. vm_compute. reflexivity. Qed.

Lemma nd_arm : category_group [78; 100]%N = Some gc_DecimalNumber.
Proof. reflexivity. Qed.
Lemma pzc_arms : category_group [80]%N = Some gc_Punctuation /\ category_group [90]%N = Some gc_Separator
                 /\ category_group [67]%N = Some gc_Other.
Proof. repeat split; reflexivity. Qed.

Lemma d_spec c : is_scalar c = true -> mem decimal_number_set c = cat_mem [78; 100]%N c.
Proof.
  intros Hs. rewrite (cset_eqb_eq _ _ decimal_is_Nd). apply (category_group_spec _ _ c Hs nd_arm).
Qed.
Lemma w_spec c : is_scalar c = true ->
  mem word_char_set c = negb (cat_mem [80]%N c || cat_mem [90]%N c || cat_mem [67]%N c || ((55296 <=? c) && (c <=? 57343)))%N.
Proof.
  intros Hs. destruct (scalar_not_surr c Hs) as [Hc _]. destruct pzc_arms as (P & Z & C).
  rewrite (word_char_spec c Hc), (category_group_spec _ _ c Hs P), (category_group_spec _ _ c Hs Z),
          (category_group_spec _ _ c Hs C).
  assert (S0 : ((55296 <=? c) && (c <=? 57343))%N = false).
  { unfold is_scalar in Hs. apply orb_true_iff in Hs as [H|H].
    - apply N.ltb_lt in H. replace (55296 <=? c)%N with false by (symmetry; apply N.leb_gt; lia). reflexivity.
    - apply andb_true_iff in H as [H _]. apply N.leb_le in H.
      replace (c <=? 57343)%N with false by (symmetry; apply N.leb_gt; lia). apply andb_false_r. }
  rewrite S0, orb_false_r. reflexivity.
Qed.

Theorem esc_set_spec e c : okesc e = true -> is_scalar c = true -> mem (esc_set e) c = esc_mem (esc_of e) c.
Proof.
  intros He Hs. destruct (scalar_not_surr c Hs) as [Hc _].
  pose proof esc_sets_wf as W. apply andb_true_iff in W as [W Ww]. apply andb_true_iff in W as [W Wd].
  apply andb_true_iff in W as [W Wc]. apply andb_true_iff in W as [Wss Wi].
  destruct (okesc_cases e He) as [->|[->|[->|[->|[->|[->|[->|[->|[->| ->]]]]]]]]];
    cbv [esc_set esc_of]; cbn [N.eqb Pos.eqb esc_mem].
  - apply s_set_spec.
  - rewrite (mem_compl _ _ Wss Hc), s_set_spec. reflexivity.
  - apply name_start_spec.
  - rewrite (mem_compl _ _ Wi Hc), name_start_spec. reflexivity.
  - apply name_char_spec.
  - rewrite (mem_compl _ _ Wc Hc), name_char_spec. reflexivity.
  - apply d_spec. exact Hs.
  - rewrite (mem_compl _ _ Wd Hc), (d_spec c Hs). reflexivity.
  - apply w_spec. exact Hs.
  - rewrite (mem_compl _ _ Ww Hc), (w_spec c Hs).
    assert (S0 : ((55296 <=? c) && (c <=? 57343))%N = false).
    { unfold is_scalar in Hs. apply orb_true_iff in Hs as [H|H].
      - apply N.ltb_lt in H. replace (55296 <=? c)%N with false by (symmetry; apply N.leb_gt; lia). reflexivity.
      - apply andb_true_iff in H as [H _]. apply N.leb_le in H.
        replace (c <=? 57343)%N with false by (symmetry; apply N.leb_gt; lia). apply andb_false_r. }
    rewrite S0, orb_false_r, negb_involutive. reflexivity.
Qed.
