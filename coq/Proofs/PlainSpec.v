(* End to end on the smallest sub-grammar: for a non-empty pattern of ordinary characters (none of
   \ [ ] ( ) { } | . ^ $ ? * +), in either dialect and under any flag string without q and x, the
   model of Regex::new + is_match - flag parser, pattern parser, optimiser, program construction
   with its search shortcuts, matcher - gives exactly the verdict of the specification: the
   specification's own parser on the same pattern text, its flag reader on the same flag string,
   and its set semantics.  Every link is a theorem; nothing is assumed about any stage. *)
From RX Require Import Base.Prelude Base.InvList Tables.Consts Model.Case Model.Op Model.Engine Model.Matcher
     Model.Compiler Model.Api Spec.Syntax Spec.Sem Spec.Parse Proofs.EngineFacts Proofs.MatcherFacts Proofs.LeafFacts
     Proofs.SmallFacts Proofs.LiteralFacts Proofs.LowerFacts Proofs.PlainPattern Spec.Repl Proofs.ReplProof Proofs.ReplaceFacts
     Proofs.ScanFacts Proofs.AnalyzeFacts Proofs.AnalyzeTreeFacts Proofs.AnalyzeIterFacts Proofs.LiteralApi.

(* ---------- the specification's parser on an ordinary pattern ---------- *)
Lemma p_quant_none c t : c <> 63%N -> c <> 42%N -> c <> 43%N -> c <> 123%N -> p_quant (c :: t) = PV None (c :: t).
Proof.
  intros H1 H2 H3 H4. unfold p_quant. destruct c as [|p]; [reflexivity|].
  do 7 (try (destruct p as [p|p|]); try reflexivity); exfalso; congruence.
Qed.

Lemma ordinary_neq c : ordinary c = true ->
  (c =? 40 = false /\ c =? 91 = false /\ c =? 46 = false /\ c =? 92 = false /\ c =? 94 = false /\ c =? 36 = false
   /\ c =? 63 = false /\ c =? 42 = false /\ c =? 43 = false /\ c =? 123 = false
   /\ c =? 125 = false /\ c =? 93 = false /\ c =? 41 = false /\ c =? 124 = false)%N.
Proof. intros H. pose proof (ordinary_tests c H) as T. cbv delta [c_bslash c_lbrack c_rbrack c_lparen c_rparen c_lbrace c_rbrace c_bar c_dot c_caret c_dollar c_qmark c_star c_plus] in T. tauto. Qed.

Lemma p_quant_ord s : forallb ordinary s = true -> p_quant s = PV None s.
Proof.
  destruct s as [|c t]; [reflexivity|]. cbn [forallb]. intros H. apply andb_true_iff in H as [Hc _].
  destruct (ordinary_neq c Hc) as (_ & _ & _ & _ & _ & _ & Q1 & Q2 & Q3 & Q4 & _).
  apply p_quant_none; intros ->; discriminate.
Qed.

Section SP.
Variable xpath : bool.
Variable st : pst.

Lemma p_atom_S f c t : ordinary c = true -> p_atom (S f) xpath st (c :: t) = PV (RChar c, st) t.
Proof.
  intros Hc. destruct (ordinary_neq c Hc) as (A1 & A2 & A3 & A4 & A5 & A6 & A7 & A8 & A9 & A10 & A11 & A12 & A13 & A14).
  cbn [p_atom]. unfold is_quant_start. rewrite A1, A2, A3, A4, A5, A6, A7, A8, A9, A10, A11, A12, A13, A14. reflexivity.
Qed.

Lemma p_piece_S f st0 s : p_piece (S f) xpath st0 s
  = pbind (p_atom f xpath st0 s) (fun '(a, st1) rest =>
      pbind (p_quant rest) (fun q rest2 =>
        match q with
        | None => PV (a, st1) rest2
        | Some (mn, mx) =>
            match rest2 with
            | 63%N :: rest3 => if xpath then PV (RQuant a mn mx false, st1) rest3 else PI
            | _ => PV (RQuant a mn mx true, st1) rest2
            end
        end)).
Proof. reflexivity. Qed.

Lemma p_branch_S f st0 s acc : p_branch (S f) xpath st0 s acc
  = match s with
    | [] => PV (RSeq (rev acc), st0) s
    | c :: _ =>
        if ((c =? 124) || (c =? 41))%N then PV (RSeq (rev acc), st0) s
        else pbind (p_piece f xpath st0 s) (fun '(p, st1) rest => p_branch f xpath st1 rest (p :: acc))
    end.
Proof. reflexivity. Qed.

Lemma p_regexp_S f st0 s : p_regexp (S f) xpath st0 s
  = pbind (p_branch f xpath st0 s []) (fun '(b, st1) rest =>
      pbind (p_more f xpath st1 rest [b]) (fun '(bs, st2) rest2 =>
        PV (match bs with [x] => x | _ => RAlt (rev bs) end, st2) rest2)).
Proof. reflexivity. Qed.

Lemma p_more_S_nil f st0 acc : p_more (S f) xpath st0 [] acc = PV (acc, st0) [].
Proof. reflexivity. Qed.

Lemma p_branch_ord : forall s fuel acc, forallb ordinary s = true -> length s + 3 <= fuel ->
  p_branch fuel xpath st s acc = PV (RSeq (rev acc ++ map RChar s), st) [].
Proof.
  induction s as [|c t IH]; intros fuel acc Ho Hf.
  - destruct fuel as [|f]; [cbn in Hf; lia|]. rewrite p_branch_S, app_nil_r. reflexivity.
  - cbn [forallb] in Ho. apply andb_true_iff in Ho as [Hc Ht]. cbn [length] in Hf.
    destruct fuel as [|[|[|f]]]; try lia.
    destruct (ordinary_neq c Hc) as (_ & _ & _ & _ & _ & _ & _ & _ & _ & _ & _ & _ & A13 & A14).
    rewrite p_branch_S, A13, A14. cbn [orb].
    rewrite p_piece_S, (p_atom_S f c t Hc). cbn [pbind]. rewrite (p_quant_ord t Ht). cbn [pbind].
    rewrite IH by (auto; lia). cbn [rev map]. rewrite <- app_assoc. reflexivity.
Qed.
End SP.

Theorem spec_parse_ordinary xpath pat : forallb ordinary pat = true ->
  spec_parse xpath pat = Valid (RSeq (map RChar pat)).
Proof.
  intros Ho. unfold spec_parse.
  replace (8 * length pat + 16) with (S (S (8 * length pat + 14))) by lia.
  rewrite p_regexp_S, p_branch_ord by (auto; lia). cbn [pbind rev app].
  rewrite p_more_S_nil. reflexivity.
Qed.

(* ---------- the specification's meaning of that expression: the literal occurs ---------- *)
Lemma spec_literal_is_match fl input pat :
  spec_is_match fl input (RSeq (map RChar pat)) = true
  <-> exists m, m <= length input /\ occurs_at pat (s_i fl) input m = true.
Proof.
  unfold spec_is_match. rewrite existsb_exists. split.
  - intros (m & Hin & Hb). apply in_seq in Hin. exists m. split; [lia|].
    change (ends fl input (RSeq (map RChar pat)) m) with (seq_ends input fl (map RChar pat) [m]) in Hb.
    destruct (seq_ends input fl (map RChar pat) [m]) as [|q t] eqn:E; [discriminate|].
    assert (Hq : In q (seq_ends input fl (map RChar pat) [m])) by (rewrite E; left; reflexivity).
    apply (atom_ends input (s_i fl) fl eq_refl pat m q ltac:(lia)) in Hq. destruct Hq as (H1 & H2 & _).
    unfold occurs_at. rewrite H2, andb_true_r. apply Nat.leb_le. exact H1.
  - intros (m & Hm & Ho). exists m. split; [apply in_seq; lia|].
    change (ends fl input (RSeq (map RChar pat)) m) with (seq_ends input fl (map RChar pat) [m]).
    unfold occurs_at in Ho. apply andb_true_iff in Ho as [H1 H2]. apply Nat.leb_le in H1.
    assert (Hq : In (m + length pat) (seq_ends input fl (map RChar pat) [m])).
    { apply (atom_ends input (s_i fl) fl eq_refl pat m _ Hm). repeat split; auto. }
    destruct (seq_ends input fl (map RChar pat) [m]); [contradiction|reflexivity].
Qed.

(* ---------- all stages together ---------- *)
Theorem ordinary_pattern_end_to_end xpath pat fls input :
  forallb ordinary pat = true -> pat <> [] -> (N.of_nat (length pat) <= umax)%N ->
  existsb (N.eqb 59) fls = false ->
  match spec_flags xpath fls with
  | Valid sf =>
      s_q sf = false -> s_x sf = false ->
      exists re r, regex_new false xpath pat fls = Ok re /\ spec_parse xpath pat = Valid r
                   /\ is_match re input = Ok (spec_is_match sf input r)
  | Invalid => regex_new false xpath pat fls = Err EInvalidFlags
  | Unspecified => True
  end.
Proof.
  intros Ho Hne Hfit Hsep. pose proof (parse_flags_spec xpath fls Hsep) as PF. unfold regex_new.
  destruct (parse_flags xpath fls) as [fl|e| |] eqn:Efl; destruct (spec_flags xpath fls) as [sf| |] eqn:Esf;
    try contradiction; try exact I; try (destruct e; try contradiction; reflexivity).
  destruct PF as [(A1 & A2 & A3 & A4 & A5) Hx]. intros Hq Hws.
  cbn [rbind]. rewrite (compile_ordinary false fl pat) by congruence. cbn [rbind].
  set (prog := mk_program pat (OSeq [OAtom pat; OEnd]) 1 (f_case fl) (f_multi fl) false false).
  (* the nullable probe: a non-empty literal does not occur in the empty input *)
  pose proof (literal_matches_spec pat (f_case fl) (f_multi fl) false [] Hfit 0 st0 (le_n 0) eq_refl) as M0.
  fold prog in M0.
  destruct (matches prog [] 0 st0) as [s0|s0| |k0] eqn:E0; try contradiction.
  { exfalso. destruct M0 as (k & _ & _ & Hocc & _). unfold occurs_at in Hocc. apply andb_true_iff in Hocc as [H1 _].
    apply Nat.leb_le in H1. cbn [length] in H1. destruct pat; [contradiction|cbn in H1; lia]. }
  cbn [mres_bool rbind].
  eexists. exists (RSeq (map RChar pat)). split; [reflexivity|]. split; [apply spec_parse_ordinary; exact Ho|].
  unfold is_match. cbn [r_prog].
  pose proof (literal_matches_spec pat (f_case fl) (f_multi fl) false input Hfit 0 st0 (Nat.le_0_l _) eq_refl) as M.
  fold prog in M.
  destruct (matches prog input 0 st0) as [s1|s1| |k1] eqn:E1; try contradiction; cbn [mres_bool rbind]; f_equal.
  - symmetry. apply spec_literal_is_match. destruct M as (k & _ & _ & Hocc & _). exists k. split.
    + unfold occurs_at in Hocc. apply andb_true_iff in Hocc as [H1 _]. apply Nat.leb_le in H1. lia.
    + rewrite <- A1. exact Hocc.
  - symmetry. apply not_true_is_false. intros Hs. apply spec_literal_is_match in Hs. destruct Hs as (m & _ & Hocc).
    rewrite <- A1, (M m (Nat.le_0_l _)) in Hocc. discriminate.
Qed.

(* non-vacuity: flags "im", pattern "ab-c" *)
Example ordinary_e2e_runs :
  match regex_new false true [97; 98; 45; 99]%N [105; 109]%N with
  | Ok re => is_match re [120; 65; 66; 45; 67]%N
  | _ => Err ESyntax
  end = Ok true.
Proof. vm_compute. reflexivity. Qed.

(* replace_all on an ordinary pattern, from the strings: the replacement grammar decides - a valid
   replacement gives the input with every match the scan visits replaced by the rendering of its
   items ($0 the match; there are no other groups), an invalid one makes the call fail as soon as
   there is a match.  No hypothesis about parser, matcher or scan loop. *)
Theorem ordinary_replace_end_to_end xpath pat fls input repl :
  forallb ordinary pat = true -> pat <> [] -> (N.of_nat (length pat) <= umax)%N ->
  existsb (N.eqb 59) fls = false ->
  match spec_flags xpath fls with
  | Valid sf =>
      s_q sf = false -> s_x sf = false ->
      exists re, regex_new false xpath pat fls = Ok re
        /\ match parse_repl 0 repl with
           | PItems its => replace_all re input repl
                           = Ok (rep_out (matches (r_prog re) input) 0 input its (length input + 2) 0 st0)
           | PInvalid => forall s', 0 < length input -> matches (r_prog re) input 0 st0 = MTrue s' ->
                                    replace_all re input repl = Err EInvalidRepl
           | PFuel => False
           end
  | _ => True
  end.
Proof.
  intros Ho Hne Hfit Hsep. pose proof (parse_flags_spec xpath fls Hsep) as PF. unfold regex_new.
  destruct (parse_flags xpath fls) as [fl|e| |] eqn:Efl; destruct (spec_flags xpath fls) as [sf| |] eqn:Esf;
    try contradiction; try exact I; try (destruct e; contradiction).
  destruct PF as [(A1 & A2 & A3 & A4 & A5) Hx]. intros Hq Hws.
  cbn [rbind]. rewrite (compile_ordinary false fl pat) by congruence. cbn [rbind].
  set (prog := mk_program pat (OSeq [OAtom pat; OEnd]) 1 (f_case fl) (f_multi fl) false false).
  pose proof (literal_matches_spec pat (f_case fl) (f_multi fl) false [] Hfit 0 st0 (le_n 0) eq_refl) as M0.
  fold prog in M0.
  destruct (matches prog [] 0 st0) as [s0|s0| |k0] eqn:E0; try contradiction.
  { exfalso. destruct M0 as (k & _ & _ & Hocc & _). unfold occurs_at in Hocc. apply andb_true_iff in Hocc as [H1 _].
    apply Nat.leb_le in H1. cbn [length] in H1. destruct pat; [contradiction|cbn in H1; lia]. }
  cbn [mres_bool rbind]. eexists. split; [reflexivity|].
  unfold replace_all, replace, replace_gen. cbn [r_nullable r_prog p_literal p_maxparens prog mk_program].
  pose proof (parse_repl_total repl 0) as Tot.
  destruct (parse_repl 0 repl) as [its| |] eqn:Ep.
  - apply (literal_replace_valid pat (f_case fl) (f_multi fl) false input Hfit Hne repl its st0 eq_refl Ep).
  - intros s' Hn Hm. apply (literal_replace_invalid pat (f_case fl) (f_multi fl) false input Hfit Hne repl st0 s' eq_refl Ep Hn Hm).
  - apply Tot. reflexivity.
Qed.

(* tokenize and analyze on an ordinary pattern, from the strings: the tokens are the pieces of the
   input between the occurrences the scan visits (at most len+1), and the texts of all entries of a
   finished analyze iteration concatenate to the input (at most 2*len+1 entries) *)
Theorem ordinary_tokenize_analyze_end_to_end xpath pat fls input :
  forallb ordinary pat = true -> pat <> [] -> (N.of_nat (length pat) <= umax)%N ->
  existsb (N.eqb 59) fls = false ->
  match spec_flags xpath fls with
  | Valid sf =>
      s_q sf = false -> s_x sf = false ->
      exists re, regex_new false xpath pat fls = Ok re /\ r_nullable re = false
        /\ tok_all (matches (r_prog re) input) input (S (S (S (length input)))) {| t_prev := Some 0; t_ms := st0 |}
           = Ok (pieces input (scan (matches (r_prog re) input) input (S (S (length input))) 0 st0) 0)
        /\ (forall table fuel l,
              an_all (matches (r_prog re) input) (process_matching_substring table) input fuel
                     {| a_next := None; a_prev := Some 0; a_skip := false; a_ms := st0 |} = Ok l ->
              flat_map atext l = input /\ length l <= 2 * length input + 1)
  | _ => True
  end.
Proof.
  intros Ho Hne Hfit Hsep. pose proof (parse_flags_spec xpath fls Hsep) as PF. unfold regex_new.
  destruct (parse_flags xpath fls) as [fl|e| |] eqn:Efl; destruct (spec_flags xpath fls) as [sf| |] eqn:Esf;
    try contradiction; try exact I; try (destruct e; contradiction).
  destruct PF as [(A1 & A2 & A3 & A4 & A5) Hx]. intros Hq Hws.
  cbn [rbind]. rewrite (compile_ordinary false fl pat) by congruence. cbn [rbind].
  set (prog := mk_program pat (OSeq [OAtom pat; OEnd]) 1 (f_case fl) (f_multi fl) false false).
  pose proof (literal_matches_spec pat (f_case fl) (f_multi fl) false [] Hfit 0 st0 (le_n 0) eq_refl) as M0.
  fold prog in M0.
  destruct (matches prog [] 0 st0) as [s0|s0| |k0] eqn:E0; try contradiction.
  { exfalso. destruct M0 as (k & _ & _ & Hocc & _). unfold occurs_at in Hocc. apply andb_true_iff in Hocc as [H1 _].
    apply Nat.leb_le in H1. cbn [length] in H1. destruct pat; [contradiction|cbn in H1; lia]. }
  cbn [mres_bool rbind]. eexists. split; [reflexivity|]. cbn [r_nullable r_prog]. split; [reflexivity|]. split.
  - apply (literal_tokenize pat (f_case fl) (f_multi fl) false input Hfit Hne (S (length input)) 0 st0); [reflexivity|lia|lia].
  - intros table fuel l H. apply (literal_analyze pat (f_case fl) (f_multi fl) false input Hfit Hne table fuel st0 l eq_refl H).
Qed.
