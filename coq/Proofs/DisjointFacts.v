(* CharacterClass::is_disjoint with its give-up threshold is sound: when it answers "disjoint", no
   Unicode scalar value belongs to both sets.  The answer rests on enumerating the members of the
   other set: if the enumeration stops short of the threshold it was complete. *)
From RX Require Import Base.Prelude Base.InvList.
Local Open Scope N_scope.

Lemma scalar_cases x : is_scalar x = true -> x < 55296 \/ (57344 <= x /\ x <= max_cp).
Proof.
  unfold is_scalar. intros H. apply orb_true_iff in H. destruct H as [H|H].
  - left. apply N.ltb_lt. exact H.
  - right. apply andb_true_iff in H as [H1 H2]. split; apply N.leb_le; assumption.
Qed.

Lemma take_range_complete : forall k c hi x, (length (take_range k c hi) < k)%nat ->
  is_scalar x = true -> c <= x -> x <= hi -> In x (take_range k c hi).
Proof.
  induction k as [|k IH]; intros c hi x Hl Hs H1 H2; [cbn in Hl; lia|].
  cbn [take_range] in *. pose proof (scalar_cases x Hs) as Hx.
  set (c' := if (55296 <=? c) && (c <=? 57343) then 57344 else c) in *.
  assert (Hc' : c' <= x).
  { unfold c'. destruct ((55296 <=? c) && (c <=? 57343)) eqn:E; [|exact H1].
    apply andb_true_iff in E as [E1 E2]. apply N.leb_le in E1, E2. lia. }
  destruct (c' <=? hi) eqn:E.
  - cbn [length] in Hl. destruct (N.eq_dec x c') as [->|Hne]; [left; reflexivity|right].
    apply IH; [lia|exact Hs|lia|exact H2].
  - apply N.leb_gt in E. lia.
Qed.

Lemma take_chars_complete : forall s k x, (length (take_chars k s) < k)%nat ->
  is_scalar x = true -> mem s x = true -> In x (take_chars k s).
Proof.
  induction s as [|[a b] t IH]; intros k x Hl Hs Hm; [discriminate|].
  cbn [take_chars] in *. rewrite app_length in Hl. unfold mem in Hm. cbn [existsb] in Hm.
  apply in_or_app. apply orb_true_iff in Hm. destruct Hm as [Hm|Hm].
  - left. unfold inr in Hm. cbn [fst snd] in Hm. apply andb_true_iff in Hm as [M1 M2].
    apply N.leb_le in M1, M2. apply take_range_complete; auto. lia.
  - right. apply IH; [lia|exact Hs|exact Hm].
Qed.

Theorem is_disjoint_sound thr a b x : is_disjoint thr a b = true ->
  is_scalar x = true -> mem b x = true -> mem a x = false.
Proof.
  unfold is_disjoint. intros H Hs Hm.
  destruct (existsb (mem a) (take_chars (S thr) b)) eqn:E; [discriminate|]. apply Nat.leb_le in H.
  assert (Hin : In x (take_chars (S thr) b)) by (apply take_chars_complete; auto; lia).
  destruct (mem a x) eqn:Ea; [|reflexivity].
  assert (existsb (mem a) (take_chars (S thr) b) = true) by (apply existsb_exists; exists x; auto). congruence.
Qed.
