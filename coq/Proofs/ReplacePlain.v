(* replace_all without flag q and with a replacement that contains neither '$' nor '\': the
   replacement text stands between the pieces of the input, whatever the groups are - the expansion
   loop never asks for a group, and from the second match on the simple-replacement latch appends the
   text directly.  Over an abstract matcher with the interface fact good_step_on only. *)
From RX Require Import Base.Prelude Spec.Repl Model.Engine Model.Matcher Model.Api Proofs.ReplProof Proofs.ScanFacts.

Lemma skipn_cons_nth' {A} (l : list A) i c : nth_error l i = Some c -> skipn i l = c :: skipn (S i) l.
Proof.
  revert i. induction l as [|x t IH]; intros [|i] E; cbn in *; try discriminate.
  - injection E as ->. reflexivity.
  - apply IH. exact E.
Qed.

Lemma expand_loop_plain r maxc f : plain r = true ->
  forall fuel i acc simple, length r - i < fuel ->
    expand_loop r maxc f fuel i acc simple = Ok (acc ++ skipn i r, simple).
Proof.
  intros Hp. induction fuel as [|fu IH]; intros i acc simple Hf; [lia|]. cbn [expand_loop].
  destruct (Nat.leb (length r) i) eqn:L.
  - apply Nat.leb_le in L. rewrite skipn_all2 by lia. rewrite app_nil_r. reflexivity.
  - apply Nat.leb_gt in L. destruct (nth_error r i) as [ch|] eqn:En; [|apply nth_error_None in En; lia].
    assert (Hc : N.eqb ch 92 = false /\ N.eqb ch 36 = false).
    { unfold plain in Hp. rewrite forallb_forall in Hp. specialize (Hp ch (nth_error_In _ _ En)).
      apply andb_true_iff in Hp as [H1 H2]. apply negb_true_iff in H1, H2. auto. }
    destruct Hc as [H1 H2]. rewrite H1, H2. rewrite IH by lia.
    rewrite (skipn_cons_nth' r i ch En), <- app_assoc. replace (i + 1) with (S i) by lia. reflexivity.
Qed.
Lemma expand_plain r maxc f acc : plain r = true -> expand r maxc f acc = Ok (acc ++ r, true).
Proof. intros Hp. unfold expand. rewrite (expand_loop_plain r maxc f Hp) by lia. reflexivity. Qed.

Section RP.
Variable matchf : nat -> mstate -> mres.
Variable maxc : nat.
Variable input repl : list N.
Let n := length input.
Variable Inv : mstate -> Prop.
Hypothesis G : good_step_on matchf input Inv.
Hypothesis Hplain : plain repl = true.

Lemma replace_latched : forall k pos s result, Inv s -> n - pos < k -> pos <= n ->
  replace_loop matchf false (S maxc) input repl (S k) pos s result false true
  = Ok (result ++ join repl (pieces input (scan matchf input (S k) pos s) pos)).
Proof.
  induction k as [|k IH]; intros pos s result Hinv Hk Hp; [lia|].
  rewrite scan_S. remember (S k) as k1 eqn:Ek. cbn [replace_loop]. fold n. subst k1.
  destruct (Nat.ltb pos n) eqn:Lt.
  - apply Nat.ltb_lt in Lt. pose proof (G pos s Hp Hinv) as Gp.
    destruct (matchf pos s) as [s'|s'| |e]; cbn [mres_bool rbind]; try contradiction.
    + destruct Gp as [(a & b & Ha & Hb & H1 & H2 & H3) Hinv']. rewrite Ha, Hb.
      rewrite rslice_ok by lia. cbn [rbind negb].
      replace (Nat.eqb b pos) with false by (symmetry; apply Nat.eqb_neq; lia).
      rewrite (IH _ _ _ Hinv') by lia. cbn [pieces]. f_equal.
      rewrite <- !app_assoc. f_equal.
      destruct (pieces input (scan matchf input (S k) b s') b) eqn:E.
      * pose proof (pieces_length input (scan matchf input (S k) b s') b) as L. rewrite E in L. discriminate L.
      * cbn [join]. destruct l0; reflexivity.
    + unfold finish. rewrite rslice_ok by lia. reflexivity.
  - apply Nat.ltb_ge in Lt. unfold finish. rewrite rslice_ok by lia. reflexivity.
Qed.

(* the whole call: first match through the expansion loop, the rest through the latch *)
Theorem replace_plain s0 : Inv s0 ->
  replace_loop matchf false (S maxc) input repl (n + 2) 0 s0 [] true false
  = Ok (join repl (pieces input (scan matchf input (n + 2) 0 s0) 0)).
Proof.
  intros Hinv. replace (n + 2) with (S (S n)) by lia.
  rewrite scan_S. remember (S n) as k1 eqn:Ek. cbn [replace_loop]. fold n. subst k1.
  destruct (Nat.ltb 0 n) eqn:Lt.
  - apply Nat.ltb_lt in Lt. pose proof (G 0 s0 (Nat.le_0_l _) Hinv) as Gp.
    destruct (matchf 0 s0) as [s'|s'| |e]; cbn [mres_bool rbind]; try contradiction.
    + destruct Gp as [(a & b & Ha & Hb & H1 & H2 & H3) Hinv']. rewrite Ha, Hb.
      rewrite rslice_ok by lia. cbn [rbind negb app].
      rewrite (expand_plain repl maxc _ _ Hplain). cbn [rbind].
      replace (Nat.eqb b 0) with false by (symmetry; apply Nat.eqb_neq; lia).
      rewrite (replace_latched n b s' _ Hinv') by lia. cbn [pieces]. f_equal.
      rewrite <- !app_assoc.
      destruct (pieces input (scan matchf input (S n) b s') b) eqn:E.
      * pose proof (pieces_length input (scan matchf input (S n) b s') b) as L. rewrite E in L. discriminate L.
      * cbn [join]. destruct l0; reflexivity.
    + cbn [pieces join]. unfold finish, slice. rewrite Nat.sub_0_r. cbn [skipn]. f_equal. symmetry. apply firstn_all.
  - unfold finish. cbn [pieces join]. unfold slice. rewrite Nat.sub_0_r. cbn [skipn]. f_equal. symmetry. apply firstn_all.
Qed.
End RP.
