(* Leaf operations of the engine against the specification's one-character semantics, the shape of
   literal (flag q) programs, and small specification-level laws. *)
From RX Require Import Base.Prelude Base.InvList.
From RX Require Import Spec.Syntax Spec.Parse Spec.CharSet Spec.Sem.
From RX Require Import Model.Case Model.Op Model.Engine Model.Matcher Model.Compiler Model.Api.
Local Open Scope N_scope.

Section Leaves.
Variable input : list N.
Variable ci multi hb : bool.
Let n := length input.

Lemma ceq_lit_eq a b : ceq ci a b = lit_eq ci a b.
Proof.
  unfold ceq, lit_eq, equal_case_blind. destruct ci; cbn [andb orb].
  - reflexivity.
  - rewrite orb_false_r. reflexivity.
Qed.

(* a one-character literal: exactly the specification's RChar *)
Theorem atom1_spec c path p s sf : s_i sf = ci ->
  mi input ci multi hb (OAtom [c]) path p s
  = match ends sf input (RChar c) p with [q] => once q s | _ => LNil s end.
Proof.
  intros Hi. cbn [mi ends length]. unfold one_char, char_at. fold n.
  destruct (nth_error input p) as [x|] eqn:E.
  - assert (p < n)%nat by (apply nth_error_Some; congruence).
    replace (Nat.ltb n (p + 1)) with false by (symmetry; apply Nat.ltb_ge; lia).
    assert (Es : skipn p input = x :: skipn (S p) input).
    { clear -E. revert p E. induction input as [|y l IH]; intros [|p] E; cbn in *; try discriminate.
      - injection E as ->. reflexivity.
      - apply IH; auto. }
    rewrite Es. cbn [starts_with]. rewrite andb_true_r, ceq_lit_eq, Hi.
    destruct (lit_eq ci c x); [|reflexivity]. replace (p + 1)%nat with (S p) by lia. reflexivity.
  - assert (n <= p)%nat by (apply nth_error_None; auto).
    replace (Nat.ltb n (p + 1)) with true by (symmetry; apply Nat.ltb_lt; lia). reflexivity.
Qed.

(* a character class operation: one character of the set *)
Theorem cls_spec cs path p s :
  mi input ci multi hb (OCls cs) path p s
  = match nth_error input p with
    | Some c => if mem cs c then once (S p) s else LNil s
    | None => LNil s
    end.
Proof. reflexivity. Qed.
End Leaves.

(* ---------------------------------------------------------------- flag q (C13) *)
Theorem literal_program unopt fl p : f_literal fl = true ->
  compile unopt fl p
  = Ok ((if unopt then mk_program_unopt else mk_program) p (OSeq [OAtom p; OEnd]) 1%nat
          (f_case fl) (f_multi fl) true false).
Proof.
  intros H. unfold compile. rewrite H. unfold make_sequence. reflexivity.
Qed.

(* the optimised literal program: search by prefix, no groups, and flags m / s / x play no part *)
Theorem literal_program_facts fl p : f_literal fl = true ->
  exists prog, compile false fl p = Ok prog /\ p_prefix prog = Some p /\ p_op prog = OSeq [OAtom p; OEnd]
               /\ p_literal prog = true /\ p_maxparens prog = 1%nat /\ p_hasbackrefs prog = false
               /\ p_hasbol prog = false /\ p_pattern prog = p.
Proof.
  intros H. rewrite (literal_program false fl p H). eexists. split; [reflexivity|].
  cbn. repeat split; reflexivity.
Qed.

(* ---------------------------------------------------------------- specification-level laws (C20, C01) *)
Section Laws.
Variable fl : sflags.
Variable s : list N.

(* same language = same set of end positions from every start *)
Definition same_ends (a b : list nat) : Prop := forall j, existsb (Nat.eqb j) a = existsb (Nat.eqb j) b.

Lemma in_insert j x l : existsb (Nat.eqb j) (insert x l) = Nat.eqb j x || existsb (Nat.eqb j) l.
Proof.
  induction l as [|y t IH]; cbn [insert existsb]; [reflexivity|].
  destruct (Nat.ltb x y) eqn:L; [reflexivity|].
  destruct (Nat.eqb x y) eqn:E.
  - apply Nat.eqb_eq in E. subst. cbn [existsb]. destruct (Nat.eqb j y); reflexivity.
  - cbn [existsb]. rewrite IH. destruct (Nat.eqb j x), (Nat.eqb j y); reflexivity.
Qed.
Lemma in_set_union j a b : existsb (Nat.eqb j) (set_union a b) = existsb (Nat.eqb j) a || existsb (Nat.eqb j) b.
Proof.
  unfold set_union. induction a as [|x t IH]; cbn [fold_right existsb]; [reflexivity|].
  rewrite in_insert, IH. destruct (Nat.eqb j x); reflexivity.
Qed.

(* wrapping in (?: ) and in a capturing group changes nothing in the language *)
Theorem law_nc r i : ends fl s (RNc r) i = ends fl s r i.
Proof. reflexivity. Qed.
Theorem law_group g r i : ends fl s (RGroup g r) i = ends fl s r i.
Proof. reflexivity. Qed.

(* alternation is union: the order of the branches does not matter, r|r = r *)
Theorem law_alt2 a b i j :
  existsb (Nat.eqb j) (ends fl s (RAlt [a; b]) i)
  = existsb (Nat.eqb j) (ends fl s a i) || existsb (Nat.eqb j) (ends fl s b i).
Proof. cbn [ends]. rewrite !in_set_union. cbn [existsb]. rewrite orb_false_r. reflexivity. Qed.
Theorem law_alt_comm a b i : same_ends (ends fl s (RAlt [a; b]) i) (ends fl s (RAlt [b; a]) i).
Proof. intros j. rewrite !law_alt2. apply orb_comm. Qed.
Theorem law_alt_idem r i : same_ends (ends fl s (RAlt [r; r]) i) (ends fl s r i).
Proof. intros j. rewrite law_alt2. apply orb_diag. Qed.
End Laws.
