(* E4 for the fixed-length repeats, greedy (OGFixed) and reluctant (ORFixed): over a body that
   matches only a fixed number of characters, the positions the repeat yields from p are exactly
   the positions reachable by k rounds of the body for some k between its bounds - the meaning
   QuantFacts gives to the specification's quantifier.  Greedy: the probe (count how many copies
   match in a row, at most max), the guard and the descending position iterator are characterised
   one by one; reluctant: the mandatory copies, then one more at a time.  With that the fragment of
   LowerFacts grows by quantifiers over fixed-length bodies, and C01 is proved on it end to end. *)
From RX Require Import Base.Prelude Base.InvList.
From RX Require Import Spec.Syntax Spec.Parse Spec.CharSet Spec.Sem.
From RX Require Import Tables.Consts Model.Case Model.Op Model.Engine Model.Matcher Model.Api.
From RX Require Import Proofs.EngineFacts Proofs.LeafFacts Proofs.LowerFacts Proofs.QuantFacts Proofs.QuantLaws.
Transparent gf_probeR int_stepR rf_minR rf_moreR.

Section Abstract.
Variable body : nat -> list nat.
Variable n leng : nat.
Hypothesis Hleng : 0 < leng.
Hypothesis Hfix : forall p q, In q (body p) -> q = p + leng.
Hypothesis Hle : forall p q, p <= n -> In q (body p) -> q <= n.

Definition hit (p : nat) : Prop := body p <> [].

Lemma hit_in p : hit p -> In (p + leng) (body p).
Proof.
  unfold hit. destruct (body p) as [|q t] eqn:E; [intros H; contradiction|]. intros _.
  assert (q = p + leng) by (apply Hfix; rewrite E; left; reflexivity). subst q. left; reflexivity.
Qed.

Lemma reach_fixed : forall k p q,
  reach body k p q <-> q = p + k * leng /\ forall j, j < k -> hit (p + j * leng).
Proof.
  induction k as [|k IH]; intros p q; cbn [reach].
  - split; [intros ->; split; [lia|intros j Hj; lia]|intros [-> _]; lia].
  - split.
    + intros (m & Hm & R). assert (m = p + leng) by (apply Hfix; exact Hm). subst m.
      apply IH in R. destruct R as [-> Hh]. split; [lia|].
      intros [|j] Hj.
      * replace (p + 0 * leng) with p by lia. unfold hit. intros E. rewrite E in Hm. destruct Hm.
      * replace (p + S j * leng) with (p + leng + j * leng) by lia. apply Hh. lia.
    + intros [-> Hh]. exists (p + leng). split.
      * apply hit_in. replace p with (p + 0 * leng) at 1 by lia. apply Hh. lia.
      * apply IH. split; [lia|]. intros j Hj. replace (p + leng + j * leng) with (p + S j * leng) by lia. apply Hh. lia.
Qed.

(* the probe: how many copies of the body match in a row from pc, given m already counted *)
Lemma gf_probe_spec mx guard : guard <= n -> forall fuel pc m, pc <= n -> n - pc < fuel -> (N.of_nat m < mx)%N ->
  exists d, gf_probeR body leng mx guard fuel pc m = Some (pc + d * leng, m + d)
            /\ (forall j, j < d -> hit (pc + j * leng) /\ pc + j * leng <= guard)
            /\ (N.of_nat (m + d) <= mx)%N
            /\ pc + d * leng <= n
            /\ (N.of_nat (m + d) = mx \/ guard < pc + d * leng \/ ~ hit (pc + d * leng)).
Proof.
  intros Hg. induction fuel as [|f IH]; intros pc m Hpc Hf Hm; [lia|].
  cbn [gf_probeR].
  destruct (Nat.leb pc guard) eqn:Eg.
  - apply Nat.leb_le in Eg. destruct (body pc) as [|q t] eqn:Eb.
    + exists 0. replace (pc + 0 * leng) with pc by lia. replace (m + 0) with m by lia.
      split; [reflexivity|]. split; [intros j Hj; lia|]. split; [lia|]. split; [lia|].
      right; right. unfold hit. rewrite Eb. intros H; apply H; reflexivity.
    + assert (Hq : q = pc + leng) by (apply Hfix; rewrite Eb; left; reflexivity).
      assert (Hqn : pc + leng <= n) by (rewrite <- Hq; apply (Hle pc); [exact Hpc|rewrite Eb; left; reflexivity]).
      assert (Hh : hit pc) by (unfold hit; rewrite Eb; discriminate).
      unfold neq. destruct (N.eqb (N.of_nat (S m)) mx) eqn:Ee.
      * apply N.eqb_eq in Ee. exists 1. replace (pc + 1 * leng) with (pc + leng) by lia. replace (m + 1) with (S m) by lia.
        split; [reflexivity|]. split; [|split; [lia|split; [lia|left; exact Ee]]].
        intros j Hj. assert (j = 0) by lia. subst j. replace (pc + 0 * leng) with pc by lia. auto.
      * apply N.eqb_neq in Ee.
        destruct (IH (pc + leng) (S m)) as (d & E & H1 & H2 & H3 & H4); try lia.
        exists (S d). rewrite E. replace (pc + leng + d * leng) with (pc + S d * leng) by lia.
        replace (S m + d) with (m + S d) by lia.
        split; [reflexivity|]. split; [|split; [lia|split; [lia|]]].
        -- intros [|j] Hj.
           ++ replace (pc + 0 * leng) with pc by lia. auto.
           ++ replace (pc + S j * leng) with (pc + leng + j * leng) by lia. apply H1. lia.
        -- replace (m + S d) with (S m + d) by lia. replace (pc + S d * leng) with (pc + leng + d * leng) by lia. exact H4.
  - apply Nat.leb_gt in Eg. exists 0. replace (pc + 0 * leng) with pc by lia. replace (m + 0) with m by lia.
    split; [reflexivity|]. split; [intros j Hj; lia|]. split; [lia|]. split; [lia|]. right; left. exact Eg.
Qed.

(* the descending iterator: cur, cur - leng, ... while >= limit *)
Lemma int_step_spec limit : forall fuel cur, cur < fuel -> forall q,
  In q (int_stepR leng limit fuel cur) <-> exists j, q + j * leng = cur /\ limit <= q.
Proof.
  induction fuel as [|f IH]; intros cur Hf q; [lia|]. cbn [int_stepR].
  destruct (Nat.leb limit cur) eqn:El.
  - apply Nat.leb_le in El. cbn [In].
    destruct (Nat.ltb cur leng) eqn:Ec.
    + apply Nat.ltb_lt in Ec. split.
      * intros [<-|[]]. exists 0. lia.
      * intros (j & Hj & Hq). destruct j as [|j]; [left; lia|]. assert (leng <= cur) by nia. lia.
    + apply Nat.ltb_ge in Ec. replace (Nat.eqb leng 0) with false by (symmetry; apply Nat.eqb_neq; lia).
      rewrite IH by lia. split.
      * intros [<-|(j & Hj & Hq)]; [exists 0; lia|exists (S j); split; [lia|exact Hq]].
      * intros (j & Hj & Hq). destruct j as [|j]; [left; lia|right; exists j; split; [lia|exact Hq]].
  - apply Nat.leb_gt in El. split; [intros []|].
    intros (j & Hj & Hq). assert (q <= cur) by nia. lia.
Qed.

(* the reluctant fixed-length repeat: first the mandatory copies, then one more at a time *)
Lemma rf_min_spec mn : forall fuel count pos, pos <= n -> n - pos < fuel ->
  match rf_minR body mn fuel count pos with
  | Some (Some (c, q)) => exists d, c = count + d /\ q = pos + d * leng /\ (N.of_nat c >= mn)%N
                                    /\ (d = 0 \/ N.of_nat c = mn) /\ (forall j, j < d -> hit (pos + j * leng)) /\ q <= n
  | Some None => exists d, (N.of_nat (count + d) < mn)%N /\ (forall j, j < d -> hit (pos + j * leng)) /\ ~ hit (pos + d * leng)
  | None => False
  end.
Proof.
  induction fuel as [|f IH]; intros count pos Hp Hf; [lia|]. cbn [rf_minR]. unfold nlt.
  destruct (N.ltb (N.of_nat count) mn) eqn:El.
  - apply N.ltb_lt in El. destruct (body pos) as [|q t] eqn:Eb.
    + exists 0. replace (count + 0) with count by lia. replace (pos + 0 * leng) with pos by lia.
      split; [exact El|]. split; [intros j Hj; lia|]. unfold hit. rewrite Eb. intros H; apply H; reflexivity.
    + assert (Hq : q = pos + leng) by (apply Hfix; rewrite Eb; left; reflexivity). subst q.
      assert (Hqn : pos + leng <= n) by (apply (Hle pos); [exact Hp|rewrite Eb; left; reflexivity]).
      assert (Hh : hit pos) by (unfold hit; rewrite Eb; discriminate).
      specialize (IH (S count) (pos + leng) Hqn ltac:(lia)).
      destruct (rf_minR body mn f (S count) (pos + leng)) as [[[c q]|]|]; [| |contradiction].
      * destruct IH as (d & -> & -> & H1 & H2 & H3 & H4). exists (S d).
        split; [lia|]. split; [lia|]. split; [lia|]. split; [right; destruct H2 as [->|H2]; lia|].
        split; [|lia]. intros [|j] Hj; [replace (pos + 0 * leng) with pos by lia; exact Hh|].
        replace (pos + S j * leng) with (pos + leng + j * leng) by lia. apply H3. lia.
      * destruct IH as (d & H1 & H2 & H3). exists (S d). split; [replace (count + S d) with (S count + d) by lia; exact H1|].
        split.
        -- intros [|j] Hj; [replace (pos + 0 * leng) with pos by lia; exact Hh|].
           replace (pos + S j * leng) with (pos + leng + j * leng) by lia. apply H2. lia.
        -- replace (pos + S d * leng) with (pos + leng + d * leng) by lia. exact H3.
  - apply N.ltb_ge in El. exists 0. replace (pos + 0 * leng) with pos by lia.
    split; [lia|]. split; [lia|]. split; [lia|]. split; [left; reflexivity|]. split; [intros j Hj; lia|exact Hp].
Qed.

Lemma rf_more_spec mx : forall fuel count pos, pos <= n -> n - pos < fuel ->
  exists l, rf_moreR body mx fuel count pos = Some l
            /\ forall q, In q l <-> exists d, 0 < d /\ q = pos + d * leng /\ (N.of_nat (count + d) <= mx)%N
                                               /\ forall j, j < d -> hit (pos + j * leng).
Proof.
  induction fuel as [|f IH]; intros count pos Hp Hf; [lia|]. cbn [rf_moreR]. unfold nlt.
  destruct (N.ltb (N.of_nat count) mx) eqn:El.
  - apply N.ltb_lt in El. destruct (body pos) as [|q t] eqn:Eb.
    + exists []. split; [reflexivity|]. intros q. split; [intros []|].
      intros (d & Hd & _ & _ & Hh). exfalso. assert (H0 : hit pos) by (replace pos with (pos + 0 * leng) by lia; apply Hh; lia).
      unfold hit in H0. rewrite Eb in H0. apply H0. reflexivity.
    + assert (Hq : q = pos + leng) by (apply Hfix; rewrite Eb; left; reflexivity). subst q.
      assert (Hqn : pos + leng <= n) by (apply (Hle pos); [exact Hp|rewrite Eb; left; reflexivity]).
      assert (Hh : hit pos) by (unfold hit; rewrite Eb; discriminate).
      destruct (IH (S count) (pos + leng) Hqn ltac:(lia)) as (l & E & Hl). rewrite E.
      exists (pos + leng :: l). split; [reflexivity|]. intros q. cbn [In]. rewrite Hl. split.
      * intros [<-|(d & Hd & -> & Hb & Hh')].
        -- exists 1. split; [lia|]. split; [lia|]. split; [lia|]. intros j Hj. assert (j = 0) by lia. subst j.
           replace (pos + 0 * leng) with pos by lia. exact Hh.
        -- exists (S d). split; [lia|]. split; [lia|]. split; [lia|].
           intros [|j] Hj; [replace (pos + 0 * leng) with pos by lia; exact Hh|].
           replace (pos + S j * leng) with (pos + leng + j * leng) by lia. apply Hh'. lia.
      * intros (d & Hd & -> & Hb & Hh'). destruct d as [|[|d]]; [lia|left; lia|right].
        exists (S d). split; [lia|]. split; [lia|]. split; [lia|].
        intros j Hj. replace (pos + leng + j * leng) with (pos + S j * leng) by lia. apply Hh'. lia.
  - apply N.ltb_ge in El. exists []. split; [reflexivity|]. intros q. split; [intros []|].
    intros (d & Hd & _ & Hb & _). lia.
Qed.
End Abstract.

Section G.
Variable input : list N.
Variable ci multi hb : bool.
Variable K : nat.
Let n := length input.
Let Rop := Rop input ci multi.
Variable o' : op.
Variable mn mx len : N.
Let leng := N.to_nat len.
Hypothesis Hsim : simple input ci multi hb K o'.
Hypothesis Hlen : (0 < len)%N.
Hypothesis Hfix : forall p q, In q (Rop o' p) -> q = p + leng.
Hypothesis Hmx : (0 < mx)%N.
Hypothesis Hfit : (N.of_nat n < umax)%N.

Let body := Rop o'.
Lemma body_le p q : p <= n -> In q (body p) -> q <= n.
Proof. intros Hp Hq. eapply (Rop_le_n input ci multi hb K o' p q); eauto. Qed.
Lemma leng_pos : 0 < leng.
Proof. unfold leng. lia. Qed.

Lemma guard_le p : gf_guard input p len mx <= n.
Proof. unfold gf_guard. fold n. destruct (N.ltb mx umax); lia. Qed.

(* below n the guard is the exact bound p + len * max *)
Lemma guard_small p : p <= n -> gf_guard input p len mx < n ->
  (mx < umax)%N /\ gf_guard input p len mx = p + leng * N.to_nat mx.
Proof.
  unfold gf_guard. fold n. intros Hp H. destruct (N.ltb mx umax) eqn:E; [|lia].
  apply N.ltb_lt in E. split; [exact E|]. unfold sadd, smul, leng in *. lia.
Qed.

Theorem gfixed_reach p q : p <= n ->
  (In q (Rop (OGFixed o' mn mx len) p)
   <-> exists k, N.to_nat mn <= k /\ (N.of_nat k <= mx)%N /\ reach body k p q).
Proof.
  intros Hp. unfold Rop at 1. cbn [EngineFacts.Rop]. fold n. fold Rop. fold body. fold leng.
  set (guard := gf_guard input p len mx).
  pose proof (guard_le p) as Hg. fold guard in Hg.
  pose proof leng_pos as Hl.
  assert (RF : forall k x, reach body k p x <-> x = p + k * leng /\ forall j, j < k -> hit body (p + j * leng))
    by (intros; apply (reach_fixed body leng Hl Hfix)).
  destruct (Nat.leb guard p && N.ltb 0 mn) eqn:Ea.
  - (* nothing can match: the first copy would have to fit *)
    apply andb_true_iff in Ea as [E1 E2]. apply Nat.leb_le in E1. apply N.ltb_lt in E2.
    split; [intros []|]. intros (k & Hk1 & Hk2 & R). apply RF in R. destruct R as [_ Hh].
    assert (Hh0 : hit body p) by (replace p with (p + 0 * leng) by lia; apply Hh; lia).
    pose proof (hit_in body leng Hfix p Hh0) as Hin. pose proof (body_le p _ Hp Hin) as Hq.
    destruct (Nat.lt_ge_cases guard n) as [Hs|Hs].
    + destruct (guard_small p Hp Hs) as [_ Eg]. fold guard in Eg. nia.
    + lia.
  - destruct (gf_probe_spec body n leng Hl Hfix body_le mx guard Hg (n + 5) p 0 Hp ltac:(lia) ltac:(lia))
      as (M & E & H1 & H2 & H3 & H4).
    rewrite E. cbn [Nat.add] in *.
    (* k copies in a row within the bounds  <->  k <= M *)
    assert (KM : forall k, (N.of_nat k <= mx)%N -> (forall j, j < k -> hit body (p + j * leng)) -> k <= M).
    { intros k Hk Hh. destruct (Nat.le_gt_cases k M) as [|Hgt]; [assumption|exfalso].
      destruct H4 as [H4|[H4|H4]].
      - lia.
      - destruct (Nat.lt_ge_cases guard n) as [Hs|Hs].
        + destruct (guard_small p Hp Hs) as [_ Eg]. fold guard in Eg. nia.
        + lia.
      - apply H4. apply Hh. exact Hgt. }
    unfold nlt. destruct (N.ltb (N.of_nat M) mn) eqn:Em.
    + apply N.ltb_lt in Em. split; [intros []|]. intros (k & Hk1 & Hk2 & R). apply RF in R. destruct R as [_ Hh].
      specialize (KM k Hk2 Hh). lia.
    + apply N.ltb_ge in Em.
      rewrite (int_step_spec leng Hl (p + leng * N.to_nat mn) (S (p + M * leng)) (p + M * leng) ltac:(lia)).
      split.
      * intros (j & Hj & Hq). exists (M - j). assert (j <= M) by nia.
        split; [nia|]. split; [lia|]. apply RF. split; [nia|]. intros i Hi. apply H1. lia.
      * intros (k & Hk1 & Hk2 & R). apply RF in R. destruct R as [-> Hh].
        specialize (KM k Hk2 Hh). exists (M - k). split; nia.
Qed.

Theorem rfixed_reach p q : (mn <= mx)%N -> p <= n ->
  (In q (Rop (ORFixed o' mn mx len) p)
   <-> exists k, N.to_nat mn <= k /\ (N.of_nat k <= mx)%N /\ reach body k p q).
Proof.
  intros Hmn Hp. unfold Rop at 1. cbn [EngineFacts.Rop]. fold n. fold Rop. fold body.
  pose proof leng_pos as Hl.
  assert (RF : forall k x, reach body k p x <-> x = p + k * leng /\ forall j, j < k -> hit body (p + j * leng))
    by (intros; apply (reach_fixed body leng Hl Hfix)).
  pose proof (rf_min_spec body n leng Hl Hfix body_le mn (n + 5) 0 p Hp ltac:(lia)) as M.
  destruct (rf_minR body mn (n + 5) 0 p) as [[[c q0]|]|]; [| |contradiction].
  - destruct M as (d & -> & -> & H1 & H2 & H3 & H4). cbn [Nat.add] in *.
    assert (Ec : N.of_nat d = mn) by (destruct H2 as [->|H2]; [lia|exact H2]).
    destruct (rf_more_spec body n leng Hl Hfix body_le mx (n + 5) d (p + d * leng) H4 ltac:(lia)) as (l & E & Hl').
    rewrite E. cbn [In]. rewrite Hl'. split.
    + intros [<-|(d' & Hd' & -> & Hb & Hh)].
      * exists d. split; [lia|]. split; [lia|]. apply RF. split; [reflexivity|exact H3].
      * exists (d + d'). split; [lia|]. split; [lia|]. apply RF. split; [lia|].
        intros j Hj. destruct (Nat.lt_ge_cases j d) as [Hs|Hs]; [apply H3; exact Hs|].
        replace (p + j * leng) with (p + d * leng + (j - d) * leng) by nia. apply Hh. lia.
    + intros (k & Hk1 & Hk2 & R). apply RF in R. destruct R as [-> Hh].
      assert (d <= k) by lia. destruct (Nat.eq_dec k d) as [->|Hne]; [left; reflexivity|right].
      exists (k - d). split; [lia|]. split; [nia|]. split; [lia|].
      intros j Hj. replace (p + d * leng + j * leng) with (p + (d + j) * leng) by nia. apply Hh. lia.
  - destruct M as (d & H1 & H2 & H3). split; [intros []|].
    intros (k & Hk1 & Hk2 & R). apply RF in R. destruct R as [_ Hh]. apply H3. apply Hh. lia.
Qed.
End G.

(* ---------- the fragment with greedy fixed-length repeats, against the specification ---------- *)
Lemma reach_ext (f g : nat -> list nat) n :
  (forall p x, p <= n -> (In x (f p) <-> In x (g p))) ->
  (forall p x, p <= n -> In x (f p) -> x <= n) ->
  forall k p q, p <= n -> (reach f k p q <-> reach g k p q).
Proof.
  intros E L. induction k as [|k IH]; intros p q Hp; cbn [reach]; [reflexivity|].
  split; intros (m & Hm & R).
  - exists m. split; [apply E; auto|]. apply IH; [eapply L; eauto|exact R].
  - apply E in Hm; [|exact Hp]. exists m. split; [exact Hm|]. apply IH; [eapply L; eauto|exact R].
Qed.

Lemma quant_wf_unnc r : quant_wf r -> quant_wf (unnc r).
Proof. induction r; cbn [unnc quant_wf]; auto. Qed.

Section LQ.
Variable input : list N.
Variable ci multi hb : bool.
Variable K : nat.
Variable fl : sflags.
Hypothesis Hci : s_i fl = ci.
Hypothesis Hmulti : s_m fl = multi.
Let n := length input.
Hypothesis Hfit : (N.of_nat n < umax)%N.
Let Rop := Rop input ci multi.
Let ends := ends fl input.

Definition mx_opt (mx : N) : option N := if N.ltb mx umax then Some mx else None.

Fixpoint lowersq (o : op) (r : re) {struct o} : Prop :=
  match o with
  | OAtom cs => unnc r = RSeq (map RChar cs) \/ (exists c, cs = [c] /\ unnc r = RChar c)
  | OCls set => exists pr, leaf_pred ci fl (unnc r) = Some pr /\ forall c, In c input -> mem set c = pr c
  | OBol => unnc r = RBol
  | OEol => unnc r = REol
  | ONothing | OEnd => unnc r = RSeq []
  | OCapture g o' => exists r', unnc r = RGroup g r' /\ lowersq o' r'
  | OGFixed o' mn mx len | ORFixed o' mn mx len => exists r' g, unnc r = RQuant r' mn (mx_opt mx) g /\ lowersq o' r'
  | OSeq os =>
      exists rs, unnc r = RSeq rs /\
        (fix all2 (os : list op) (rs : list re) : Prop :=
           match os, rs with
           | [], [] => True
           | o1 :: os', r1 :: rs' => lowersq o1 r1 /\ all2 os' rs'
           | _, _ => False
           end) os rs
  | OChoice bs =>
      exists rs, unnc r = RAlt rs /\
        (fix all2 (os : list op) (rs : list re) : Prop :=
           match os, rs with
           | [], [] => True
           | o1 :: os', r1 :: rs' => lowersq o1 r1 /\ all2 os' rs'
           | _, _ => False
           end) bs rs
  | _ => False
  end.

Fixpoint plainq (o : op) : Prop :=
  match o with
  | OBackref _ | ORepeat _ _ _ _ | OUnamb _ _ _ => False
  | OGFixed o' mn mx len | ORFixed o' mn mx len =>
      plainq o' /\ (0 < len)%N /\ (0 < mx)%N /\ (mn <= mx)%N /\ (forall p q, In q (Rop o' p) -> q = p + N.to_nat len)
  | OCapture g o' => plainq o' /\ (hb = true -> g < K)
  | OChoice bs => (fix all l := match l with [] => True | x :: t => plainq x /\ all t end) bs
  | OSeq os => os <> [] /\ (fix all l := match l with [] => True | x :: t => plainq x /\ all t end) os
  | _ => True
  end.

Lemma plainq_simple : forall o, plainq o -> simple input ci multi hb K o.
Proof.
  induction o using op_ind2; cbn [plainq simple]; auto; try tauto.
  - induction H as [|x t Hx Ht IH]; intros Hall; [exact I|]. destruct Hall as [Hp Hall].
    split; [apply Hx; exact Hp|apply IH; exact Hall].
  - intros [Hne Hall]. split; [exact Hne|]. clear Hne. revert Hall.
    induction H as [|x t Hx Ht IH]; intros Hall; [exact I|]. destruct Hall as [Hp Hall].
    split; [apply Hx; exact Hp|apply IH; exact Hall].
Qed.

Theorem lowersq_ends : forall o, plainq o -> forall r, quant_wf r -> lowersq o r ->
  forall p q, p <= n -> (In q (Rop o p) <-> In q (ends r p)).
Proof.
  induction o using op_ind2; intros Hpl r Hwf Hl p q Hp; unfold ends; rewrite <- (ends_unnc input fl r);
    apply quant_wf_unnc in Hwf; cbn [lowersq plainq] in Hl, Hpl;
    try contradiction; unfold Rop; cbn [EngineFacts.Rop]; fold n.
  - (* Bol *) rewrite Hl. cbn [Sem.ends]. unfold bol_at. rewrite Hmulti. fold n.
    destruct (Nat.eqb p 0) eqn:E0; cbn [orb]; [reflexivity|].
    destruct multi; cbn [andb]; [|reflexivity].
    apply Nat.eqb_neq in E0. replace (Nat.ltb 0 p) with true by (symmetry; apply Nat.ltb_lt; lia). cbn [andb].
    unfold is_nl, is_lf, char_at. reflexivity.
  - (* Eol *) rewrite Hl. cbn [Sem.ends]. unfold eol_at. rewrite Hmulti. fold n.
    unfold is_nl, is_lf, char_at.
    destruct multi; cbn [andb].
    + destruct (Nat.eqb n 0) eqn:E0; cbn [orb].
      * apply Nat.eqb_eq in E0. assert (p = 0) by lia. subst p. rewrite E0. cbn. reflexivity.
      * destruct (Nat.leb n p) eqn:E1; cbn [orb].
        -- apply Nat.leb_le in E1. assert (p = n) by lia. subst p. rewrite Nat.eqb_refl. reflexivity.
        -- apply Nat.leb_gt in E1. replace (Nat.eqb p n) with false by (symmetry; apply Nat.eqb_neq; lia). reflexivity.
    + rewrite orb_false_r. destruct (Nat.eqb n 0) eqn:E0; cbn [orb].
      * apply Nat.eqb_eq in E0. assert (p = 0) by lia. subst p. rewrite E0. reflexivity.
      * destruct (Nat.leb n p) eqn:E1.
        -- apply Nat.leb_le in E1. assert (p = n) by lia. subst p. rewrite Nat.eqb_refl. reflexivity.
        -- apply Nat.leb_gt in E1. replace (Nat.eqb p n) with false by (symmetry; apply Nat.eqb_neq; lia). reflexivity.
  - (* Nothing *) rewrite Hl. reflexivity.
  - (* End *) rewrite Hl. reflexivity.
  - (* Atom *)
    destruct Hl as [Hl|(c & -> & Hl)]; rewrite Hl.
    + change (Sem.ends fl input (RSeq (map RChar cs)) p) with (seq_ends input fl (map RChar cs) [p]).
      rewrite (atom_ends input ci fl Hci) by exact Hp. fold n.
      destruct (Nat.ltb n (p + length cs)) eqn:E.
      * apply Nat.ltb_lt in E. split; [intros []|intros (H1 & _); lia].
      * apply Nat.ltb_ge in E. destruct (starts_with (ceq ci) cs (skipn p input)).
        -- split; [intros [<-|[]]; auto|intros (_ & _ & ->); left; reflexivity].
        -- split; [intros []|intros (_ & H2 & _); discriminate].
    + pose proof (atom_ends input ci fl Hci [c] p q Hp) as A. cbn [map length] in A. fold n in A.
      assert (E : seq_ends input fl [RChar c] [p] = Sem.ends fl input (RChar c) p).
      { rewrite seq_ends_cons. cbn [step_set fold_right seq_ends].
        cbn [Sem.ends]. unfold one_char. destruct (char_at input p); [|reflexivity].
        destruct (lit_eq (s_i fl) c n0); reflexivity. }
      rewrite E in A. rewrite A. cbn [length].
      destruct (Nat.ltb n (p + 1)) eqn:E1.
      * apply Nat.ltb_lt in E1. split; [intros []|intros (H1 & _); lia].
      * apply Nat.ltb_ge in E1. destruct (starts_with (ceq ci) [c] (skipn p input)).
        -- split; [intros [<-|[]]; auto|intros (_ & _ & ->); left; reflexivity].
        -- split; [intros []|intros (_ & H2 & _); discriminate].
  - (* Cls *)
    destruct Hl as (pr & Hpr & Hmem). rewrite (leaf_ends input ci fl Hci _ _ _ Hpr). unfold one_char, char_at.
    destruct (nth_error input p) as [c|] eqn:Ec; [|reflexivity]. rewrite (Hmem c (nth_error_In _ _ Ec)). reflexivity.
  - (* Capture *)
    destruct Hl as (r' & Hr & Hl). rewrite Hr in *. destruct Hpl as [Hpl _].
    change (Sem.ends fl input (RGroup g r') p) with (ends r' p). apply IHo; auto.
  - (* Choice *)
    destruct Hl as (rs & Hr & Hall). rewrite Hr in *. clear Hr r. cbn [quant_wf] in Hwf.
    change (Sem.ends fl input (RAlt rs) p) with
      ((fix go (l : list re) : list nat := match l with [] => [] | x :: t => set_union (ends x p) (go t) end) rs).
    revert rs Hall Hpl Hwf. induction H as [|x t Hx Ht IH]; intros rs Hall Hpl Hwf; destruct rs as [|r1 rs']; try contradiction.
    + reflexivity.
    + destruct Hall as [Hl1 Hall]. destruct Hpl as [Hp1 Hpl]. destruct Hwf as [Hw1 Hwf]. cbn [flat_map].
      pose proof (Hx Hp1 r1 Hw1 Hl1 p q Hp) as Hx'. unfold Rop in Hx'.
      rewrite in_app_iff, In_set_union, Hx', (IH rs' Hall Hpl Hwf). reflexivity.
  - (* Seq *)
    destruct Hl as (rs & Hr & Hall). rewrite Hr in *. clear Hr r. destruct Hpl as [Hne Hpl]. cbn [quant_wf] in Hwf.
    change (Sem.ends fl input (RSeq rs) p) with (seq_ends input fl rs [p]).
    set (go := fix go (os : list op) (p : nat) : list nat :=
                 match os with
                 | [] => []
                 | [o1] => Rop o1 p
                 | o1 :: os' => flat_map (fun q => go os' q) (Rop o1 p)
                 end).
    change (In q (go os p) <-> In q (seq_ends input fl rs [p])).
    assert (G : forall rs,
                (fix all l := match l with [] => True | x :: t => quant_wf x /\ all t end) rs ->
                (fix all2 (os : list op) (rs : list re) : Prop :=
                   match os, rs with
                   | [], [] => True
                   | o1 :: os', r1 :: rs' => lowersq o1 r1 /\ all2 os' rs'
                   | _, _ => False
                   end) os rs ->
                forall a, (forall x, In x a -> x <= n) ->
                  ((exists p0, In p0 a /\ In q (go os p0)) <-> In q (seq_ends input fl rs a))).
    { clear rs Hall p Hp Hwf. induction H as [|o1 t Ho1 Ht IH]; [contradiction|].
      intros rs Hwf Hall a Ha. destruct rs as [|r1 rs']; [contradiction|]. destruct Hall as [Hl1 Hall].
      destruct Hwf as [Hw1 Hwf].
      destruct Hpl as [Hp1 Hpl]. rewrite seq_ends_cons. fold ends.
      assert (S1 : forall p0 m, p0 <= n -> (In m (Rop o1 p0) <-> In m (ends r1 p0))) by (intros; apply Ho1; auto).
      destruct t as [|o2 t'].
      - destruct rs'; [|contradiction]. cbn [seq_ends go]. rewrite In_step_set.
        split; intros (p0 & Hp0 & Hq); exists p0; (split; [exact Hp0|]); apply (S1 p0 q (Ha p0 Hp0)); exact Hq.
      - assert (Hne2 : o2 :: t' <> []) by discriminate.
        assert (Ha' : forall x, In x (step_set (ends r1) a) -> x <= n).
        { intros x Hx. apply In_step_set in Hx. destruct Hx as (p0 & Hp0 & Hx).
          apply (S1 p0 x (Ha p0 Hp0)) in Hx.
          eapply (Rop_le_n input ci multi hb K o1 p0 x); eauto. apply plainq_simple; exact Hp1. }
        rewrite <- (IH Hne2 Hpl rs' Hwf Hall _ Ha').
        change (go (o1 :: o2 :: t')) with (fun p0 => flat_map (fun q0 => go (o2 :: t') q0) (Rop o1 p0)).
        split.
        + intros (p0 & Hp0 & Hq). apply in_flat_map in Hq. destruct Hq as (m & Hm & Hq).
          exists m. split; [|exact Hq]. apply In_step_set. exists p0. split; [exact Hp0|].
          apply (S1 p0 m (Ha p0 Hp0)). exact Hm.
        + intros (m & Hm & Hq). apply In_step_set in Hm. destruct Hm as (p0 & Hp0 & Hm).
          exists p0. split; [exact Hp0|]. apply in_flat_map. exists m. split; [|exact Hq].
          apply (S1 p0 m (Ha p0 Hp0)). exact Hm. }
    rewrite <- (G rs Hwf Hall [p]).
    + split; [intros Hq; exists p; cbn; auto|intros (p0 & [<-|[]] & Hq); exact Hq].
    + intros x [<-|[]]. exact Hp.
  - (* GFixed *)
    destruct Hl as (r' & g & Hr & Hl). rewrite Hr in *. destruct Hpl as (Hp1 & Hlen & Hmx & Hmn & Hfix).
    pose proof Hwf as Hwf0. cbn [quant_wf] in Hwf. destruct Hwf as [Hw' Hb].
    assert (Hsim : simple input ci multi hb K o) by (apply plainq_simple; exact Hp1).
    pose proof (gfixed_reach input ci multi hb K o mn mx l Hsim Hlen Hfix Hmx Hfit p q Hp) as GR.
    unfold Rop in GR. cbn [EngineFacts.Rop] in GR. fold n in GR. rewrite GR. clear GR.
    rewrite (ends_quant fl input r' mn (mx_opt mx) g p q Hwf0 Hp).
    assert (SL : forall p0 x, p0 <= n -> In x (Rop o p0) -> x <= n)
      by (intros p0 x Hp0 Hx; eapply (Rop_le_n input ci multi hb K o p0 x); eauto).
    assert (RE : forall k x, reach (Rop o) k p x <-> reach (ends r') k p x).
    { intros k x. apply (reach_ext (Rop o) (ends r') n); [intros p0 y Hp0; apply IHo; auto|exact SL|exact Hp]. }
    assert (Hl0 : 0 < N.to_nat l) by lia.
    split; intros (k & Hk1 & Hk2 & R); exists k; (split; [exact Hk1|]).
    + split; [|apply RE; exact R]. unfold mx_opt. destruct (N.ltb mx umax); [lia|exact I].
    + apply RE in R. split; [|exact R].
      unfold mx_opt in Hk2. destruct (N.ltb mx umax) eqn:Eu; [lia|]. apply N.ltb_ge in Eu.
      pose proof (reach_le (Rop o) n SL k p q Hp R) as Hq.
      apply (reach_fixed (Rop o) (N.to_nat l) Hl0 Hfix) in R. destruct R as [-> _].
      assert (k <= n) by nia. lia.
  - (* RFixed *)
    destruct Hl as (r' & g & Hr & Hl). rewrite Hr in *. destruct Hpl as (Hp1 & Hlen & Hmx & Hmn & Hfix).
    pose proof Hwf as Hwf0. cbn [quant_wf] in Hwf. destruct Hwf as [Hw' Hb].
    assert (Hsim : simple input ci multi hb K o) by (apply plainq_simple; exact Hp1).
    pose proof (rfixed_reach input ci multi hb K o mn mx l Hsim Hlen Hfix Hmx Hfit p q Hmn Hp) as GR.
    unfold Rop in GR. cbn [EngineFacts.Rop] in GR. fold n in GR. rewrite GR. clear GR.
    rewrite (ends_quant fl input r' mn (mx_opt mx) g p q Hwf0 Hp).
    assert (SL : forall p0 x, p0 <= n -> In x (Rop o p0) -> x <= n)
      by (intros p0 x Hp0 Hx; eapply (Rop_le_n input ci multi hb K o p0 x); eauto).
    assert (RE : forall k x, reach (Rop o) k p x <-> reach (ends r') k p x).
    { intros k x. apply (reach_ext (Rop o) (ends r') n); [intros p0 y Hp0; apply IHo; auto|exact SL|exact Hp]. }
    assert (Hl0 : 0 < N.to_nat l) by lia.
    split; intros (k & Hk1 & Hk2 & R); exists k; (split; [exact Hk1|]).
    + split; [|apply RE; exact R]. unfold mx_opt. destruct (N.ltb mx umax); [lia|exact I].
    + apply RE in R. split; [|exact R].
      unfold mx_opt in Hk2. destruct (N.ltb mx umax) eqn:Eu; [lia|]. apply N.ltb_ge in Eu.
      pose proof (reach_le (Rop o) n SL k p q Hp R) as Hq.
      apply (reach_fixed (Rop o) (N.to_nat l) Hl0 Hfix) in R. destruct R as [-> _].
      assert (k <= n) by nia. lia.
Qed.
End LQ.

(* ---------- end to end: C01 on the fragment with greedy fixed-length repeats ---------- *)
From RX Require Import Model.Compiler Proofs.MatcherFacts Proofs.EngineCorollaries Proofs.FragmentSpec.

Lemma plainq_all_app input ci multi hb K (l1 l2 : list op) :
  (fix all l := match l with [] => True | x :: t => plainq input ci multi hb K x /\ all t end) l1 ->
  (fix all l := match l with [] => True | x :: t => plainq input ci multi hb K x /\ all t end) l2 ->
  (fix all l := match l with [] => True | x :: t => plainq input ci multi hb K x /\ all t end) (l1 ++ l2).
Proof. induction l1 as [|x t IH]; intros H1 H2; [exact H2|]. destruct H1 as [Hx H1]. split; [exact Hx|apply IH; auto]. Qed.

Lemma plainq_with_end input ci multi hb K o : plainq input ci multi hb K o -> plainq input ci multi hb K (make_sequence o OEnd).
Proof.
  intros Hp. destruct o; cbn [make_sequence]; try (split; [discriminate|split; [exact Hp|split; exact I]]).
  cbn [plainq] in Hp. cbn [plainq]. destruct Hp as [Hne Hall]. split.
  - destruct os; [contradiction|discriminate].
  - apply plainq_all_app; [exact Hall|]. split; exact I.
Qed.

Theorem fragmentq_is_match_spec prog input fl o r s :
  p_op prog = make_sequence o OEnd ->
  plainq input (p_case prog) (p_multi prog) (p_hasbackrefs prog) (p_maxparens prog) o ->
  quant_wf r ->
  lowersq input (p_case prog) fl o r -> s_i fl = p_case prog -> s_m fl = p_multi prog ->
  (N.of_nat (length input) < umax)%N ->
  (p_hasbol prog = false /\ p_minlen prog = 0%N /\ p_prefix prog = None /\ p_icc prog = None /\ p_pre prog = []) ->
  length (sb s) = length (eb s) ->
  ((exists s', matches prog input 0 s = MTrue s') <-> spec_is_match fl input r = true).
Proof.
  intros Hop Hpl Hwf Hl Hi Hm Hfit Hun Hs.
  assert (Hne : match o with OSeq [] => False | _ => True end).
  { destruct o; auto. destruct os; auto. cbn [plainq] in Hpl. destruct Hpl as [H _]. apply H. reflexivity. }
  assert (Hsim : simple input (p_case prog) (p_multi prog) (p_hasbackrefs prog) (p_maxparens prog) (p_op prog)).
  { rewrite Hop. apply plainq_simple. apply plainq_with_end. exact Hpl. }
  rewrite (fragment_is_match_iff prog input Hsim Hun 0 s (Nat.le_0_l _) Hs).
  unfold spec_is_match. rewrite existsb_exists.
  assert (NE : forall m, m <= length input ->
            (Rop input (p_case prog) (p_multi prog) (p_op prog) m <> []
             <-> (match ends fl input r m with [] => false | _ => true end) = true)).
  { intros m Hm'. rewrite Hop, (Rop_with_end input (p_case prog) (p_multi prog) o m Hne).
    pose proof (lowersq_ends input (p_case prog) (p_multi prog) (p_hasbackrefs prog) (p_maxparens prog) fl Hi Hm Hfit o Hpl r Hwf Hl m) as LE.
    destruct (Rop input (p_case prog) (p_multi prog) o m) as [|q t] eqn:E1;
      destruct (ends fl input r m) as [|q' t'] eqn:E2.
    - split; [intros H; contradiction|discriminate].
    - exfalso. apply (proj2 (LE q' Hm')). left; reflexivity.
    - exfalso. apply (proj1 (LE q Hm')). left; reflexivity.
    - split; [reflexivity|discriminate]. }
  split.
  - intros (m & [_ Hm'] & Hne'). exists m. split; [apply in_seq; lia|]. apply NE; auto.
  - intros (m & Hin & Hb). apply in_seq in Hin. exists m. split; [lia|]. apply NE; [lia|exact Hb].
Qed.

(* non-vacuity: the unoptimised program of [a-b]x{2,3}(?:c|dd) *)
Definition exq_op : op := OSeq [OCls [(97, 98)%N]; OGFixed (OAtom [120%N]) 2 3 1; OChoice [OAtom [99%N]; OAtom [100%N; 100%N]]].
Definition exq_re : re :=
  RSeq [RCls (CGroup false [IRange 97 98] None); RQuant (RChar 120) 2 (Some 3%N) true; RNc (RAlt [RChar 99; RSeq [RChar 100; RChar 100]])]%N.
Definition exq_prog : program := mk_program_unopt [] (make_sequence exq_op OEnd) 1 false false false false.
Example exq_plain input : plainq input false false false 1 exq_op.
Proof.
  cbn [plainq exq_op]. repeat (split; try exact I; try discriminate; try lia).
  intros p q. cbn [EngineFacts.Rop length].
  repeat match goal with |- context [if ?c then _ else _] => destruct c end;
    match goal with |- In _ [] -> _ => intros [] | |- _ => intros [<-|[]]; reflexivity end.
Qed.
Example exq_lowers : forall input, lowersq input false ex_fl exq_op exq_re.
Proof.
  intros input. cbn [lowersq exq_op exq_re unnc]. eexists. split; [reflexivity|]. repeat split.
  - eexists. split; [reflexivity|]. intros c _. cbn. rewrite !orb_false_r. reflexivity.
  - exists (RChar 120%N), true. split; [reflexivity|]. right. eexists. split; reflexivity.
  - eexists. split; [reflexivity|]. repeat split.
    + right. eexists. split; reflexivity.
    + left. reflexivity.
Qed.
Example exq_wf : quant_wf exq_re.
Proof. cbn. repeat split; lia. Qed.
Example exq_runs : (exists s', matches exq_prog [122; 98; 120; 120; 120; 100; 100]%N 0 st0 = MTrue s')
                   /\ spec_is_match ex_fl [122; 98; 120; 120; 120; 100; 100]%N exq_re = true.
Proof. split; [vm_compute; eexists; reflexivity|vm_compute; reflexivity]. Qed.
