(* O2 (first instalment): the first-term filters of the search loop are sound - a start position the
   prefix scan or the first-character filter skips cannot start a match of the program. *)
From RX Require Import Base.Prelude Base.InvList Model.Case Model.Op Model.Engine Model.Matcher.

Section Filters.
Variable input : list N.
Variable ci multi hb : bool.

Lemma bind_nil s k : bind (LNil s) k = LNil s.
Proof. reflexivity. Qed.

(* the program's operation starts with the literal [pre]: no match where the literal is absent *)
Theorem prefix_filter_sound pre rest path j s :
  rest <> [] ->
  starts_with (ceq ci) pre (skipn j input) = false ->
  exists s', mi input ci multi hb (OSeq (OAtom pre :: rest)) path j s = LNil s'.
Proof.
  intros Hr Hf. destruct rest as [|r1 rest']; [congruence|].
  cbn [mi]. rewrite Hf.
  destruct (Nat.ltb (length input) (j + length pre)); cbn [bind on_nil]; eexists; reflexivity.
Qed.

(* ... starts with a character class: no match where the character is not in the class *)
Theorem first_class_filter_sound cls rest path j s :
  rest <> [] ->
  (match nth_error input j with Some c => mem cls c | None => false end) = false ->
  exists s', mi input ci multi hb (OSeq (OCls cls :: rest)) path j s = LNil s'.
Proof.
  intros Hr Hf. destruct rest as [|r1 rest']; [congruence|].
  cbn [mi]. destruct (nth_error input j) as [c|]; [rewrite Hf|]; cbn [bind on_nil]; eexists; reflexivity.
Qed.
End Filters.
