(* C16 on the fragment: a zero-length match anywhere implies a match of the empty input; hence a
   regex that does not match the empty input (the up-front guard) never reports a zero-length match. *)
From RX Require Import Base.Prelude Base.InvList Tables.Consts Model.Case Model.Op Model.Engine Model.Matcher
     Model.Compiler Model.Api Proofs.EngineFacts Proofs.MatcherFacts Proofs.LengthFacts Proofs.ShortcutFacts.

Section Z.
Variable input : list N.
Variable ci multi hb : bool.
Variable K : nat.
Let n := length input.
Let R := Rop input ci multi.
Let R0 := Rop [] ci multi.
Let simp := simple input ci multi hb K.
Let simp0 := simple [] ci multi hb K.

Lemma R0_le0 o q : simp0 o -> In q (R0 o 0) -> q = 0.
Proof.
  intros Hs Hin.
  set (s := {| cs_ := cs0; sb := repeat None K; eb := repeat None K; anchored := false; hist := [] |}).
  assert (W : wf hb K s).
  { unfold wf, s, cs0. cbn. rewrite !repeat_length. unfold capture_initial_len. repeat split; auto. }
  pose proof (engine_yields_Rop [] ci multi hb K o Hs [0] 0 s (le_n 0) W) as Y.
  pose proof (YW_in [] hb K _ _ q Y Hin) as L. cbn in L. lia.
Qed.

Lemma int_stepR_zero len : forall fuel, 0 < fuel -> int_stepR len 0 fuel 0 = [0] \/ In 0 (int_stepR len 0 fuel 0).
Proof. intros [|f] H; [lia|]. right. cbn. left. reflexivity. Qed.

Theorem zero_length_implies_empty : forall o, simp o -> simp0 o ->
  forall k, k <= n -> In k (R o k) -> In 0 (R0 o 0).
Proof.
  unfold simp, simp0, R, R0.
  induction o using op_ind2; intros Hs Hs0 k Hk Hin; cbn [Rop] in *; try (cbn in Hs; tauto).
  - (* Bol *) left. reflexivity.
  - (* Eol *) destruct multi; left; reflexivity.
  - left; reflexivity.
  - left; reflexivity.
  - (* Atom *) fold n in Hin.
    destruct (Nat.ltb n (k + length cs)); [inversion Hin|].
    destruct (starts_with (ceq ci) cs (skipn k input)); [|inversion Hin].
    destruct Hin as [E|[]]. assert (length cs = 0) by lia. destruct cs; [|discriminate]. cbn. left. reflexivity.
  - (* Cls *) destruct (nth_error input k); [|inversion Hin]. destruct (mem i n0); [|inversion Hin].
    destruct Hin as [E|[]]. lia.
  - (* Capture *) cbn in Hs, Hs0. destruct Hs as [Hs _]. destruct Hs0 as [Hs0 _]. eapply IHo; eauto.
  - (* Choice *) cbn in Hs, Hs0. apply in_flat_map in Hin as [b [Hb Hq]]. apply in_flat_map. exists b. split; auto.
    assert (forall (P : op -> Prop) l, (fix all l := match l with [] => True | x :: t => P x /\ all t end) l -> In b l -> P b) as A.
    { intros P l. induction l as [|x t IHl]; intros Ha Hi; [inversion Hi|]. destruct Ha as [A1 A2].
      destruct Hi as [<-|Hi]; auto. }
    rewrite Forall_forall in H. eapply H; eauto.
    + apply (A (simple input ci multi hb K) bs Hs Hb).
    + apply (A (simple [] ci multi hb K) bs Hs0 Hb).
  - (* Seq *) cbn in Hs, Hs0. destruct Hs as [Hne Hall]. destruct Hs0 as [_ Hall0].
    assert (G : forall k, k <= n ->
      In k ((fix go (os0 : list op) (p0 : nat) {struct os0} : list nat :=
               match os0 with
               | [] => []
               | [o1] => Rop input ci multi o1 p0
               | o1 :: (_ :: _) as os' => flat_map (fun q => go os' q) (Rop input ci multi o1 p0)
               end) os k) ->
      In 0 ((fix go (os0 : list op) (p0 : nat) {struct os0} : list nat :=
               match os0 with
               | [] => []
               | [o1] => Rop [] ci multi o1 p0
               | o1 :: (_ :: _) as os' => flat_map (fun q => go os' q) (Rop [] ci multi o1 p0)
               end) os 0)).
    { clear Hin k Hk. induction H as [|o1 os Ho Hos IHos]; [congruence|]. intros k Hk Hin.
      destruct Hall as [S1 Srest]. destruct Hall0 as [T1 Trest].
      destruct os as [|o2 os'].
      - eapply Ho; eauto.
      - apply in_flat_map in Hin as [q1 [Hq1 Hq]].
        (* both parts are zero-length: k <= q1 <= k *)
        destruct (min_length_sound input ci multi hb K o1 S1 k q1 Hq1) as [L1 _].
        assert (Hq1n : q1 <= n).
        { set (s := {| cs_ := cs0; sb := repeat None K; eb := repeat None K; anchored := false; hist := [] |}).
          assert (W : wf hb K s).
          { unfold wf, s, cs0. cbn. rewrite !repeat_length. unfold capture_initial_len. repeat split; auto. }
          pose proof (engine_yields_Rop input ci multi hb K o1 S1 [0] k s Hk W) as Y.
          eapply YW_in; eauto. }
        assert (L2 : q1 <= k).
        { assert (Sseq : simple input ci multi hb K (OSeq (o2 :: os'))) by (cbn; split; [discriminate|exact Srest]).
          destruct (min_length_sound input ci multi hb K (OSeq (o2 :: os')) Sseq q1 k Hq) as [L _]. exact L. }
        assert (q1 = k) by lia. subst q1.
        apply in_flat_map. exists 0. split.
        + eapply Ho; eauto.
        + apply (IHos ltac:(discriminate) Srest Trest k Hk Hq). }
    apply (G k Hk Hin).
  - (* GFixed *) cbn in Hs, Hs0. destruct Hs as (Hs2 & Hlen & Hfix). destruct Hs0 as (Hs20 & _ & Hfix0).
    fold n in Hin. fold (gf_guard input k l mx) in Hin.
    destruct (Nat.leb (gf_guard input k l mx) k && N.ltb 0 mn); [inversion Hin|].
    destruct (gf_probeR _ _ _ _ _ _ _) as [[p' m]|] eqn:E; [|inversion Hin].
    destruct (nlt m mn) eqn:Em; [inversion Hin|].
    apply int_stepR_in in Hin. destruct Hin as [Hlo _].
    assert (Hmn : mn = 0%N).
    { destruct (N.eq_dec mn 0); auto. exfalso. assert (0 < N.to_nat l * N.to_nat mn) by nia. lia. }
    subst mn.
    (* on the empty input the body cannot match (it would end at len > 0), so zero repetitions *)
    assert (B0 : Rop [] ci multi o 0 = []).
    { destruct (Rop [] ci multi o 0) as [|q rest] eqn:Eb; auto. exfalso.
      assert (Hin : In q (Rop [] ci multi o 0)) by (rewrite Eb; left; auto).
      pose proof (R0_le0 o q Hs20 Hin). pose proof (Hfix0 0 q Hin). lia. }
    cbn [length]. fold (gf_guard [] 0 l mx).
    replace (N.ltb 0 0) with false by reflexivity. rewrite andb_false_r.
    assert (P : gf_probeR (Rop [] ci multi o) (N.to_nat l) mx (gf_guard [] 0 l mx) (0 + 5) 0 0 = Some (0, 0)).
    { Transparent gf_probeR. cbn [gf_probeR Nat.add]. rewrite B0.
      destruct (Nat.leb 0 (gf_guard [] 0 l mx)); reflexivity. }
    rewrite P. replace (nlt 0 0) with false by reflexivity.
    replace (0 + N.to_nat l * N.to_nat 0) with 0 by lia.
    Transparent int_stepR. cbn. left. reflexivity.
  - (* RFixed *) cbn in Hs, Hs0. destruct Hs as (Hs2 & Hlen & Hfix). destruct Hs0 as (Hs20 & _ & Hfix0).
    fold n in Hin.
    destruct (rf_minR _ _ _ _ _) as [[[c pos]|]|] eqn:Em; try (inversion Hin; fail).
    assert (Hb : forall p q, In q (Rop input ci multi o p) -> p <= q /\ N.to_nat l <= q - p).
    { intros p0 q0 Hq0. rewrite (Hfix p0 q0 Hq0). split; lia. }
    destruct (rf_minR_spec _ mn _ Hb _ _ _ _ _ Em) as (A1 & A2 & A3 & A4).
    assert (Hpos : pos <= k).
    { destruct (rf_moreR _ _ _ _ _) as [l0|] eqn:Er; [|inversion Hin].
      destruct Hin as [->|Hin]; auto.
      pose proof (rf_moreR_spec _ mx (fun p q Hq => proj1 (Hb p q Hq)) _ _ _ _ Er k Hin). lia. }
    assert (c = 0) by (destruct c; auto; exfalso; assert (0 < N.to_nat l) by lia; nia).
    subst c. unfold nlt in A4. apply N.ltb_ge in A4. assert (mn = 0%N) by lia. subst mn.
    assert (B0 : Rop [] ci multi o 0 = []).
    { destruct (Rop [] ci multi o 0) as [|q rest] eqn:Eb; auto. exfalso.
      assert (Hin0 : In q (Rop [] ci multi o 0)) by (rewrite Eb; left; auto).
      pose proof (R0_le0 o q Hs20 Hin0). pose proof (Hfix0 0 q Hin0). lia. }
    cbn [length].
    Transparent rf_minR rf_moreR. cbn [rf_minR Nat.add]. replace (nlt 0 0) with false by reflexivity.
    cbn [rf_moreR]. destruct (nlt 0 mx); [rewrite B0|]; left; reflexivity.
  - (* Unamb *) cbn in Hs, Hs0. destruct Hs as [Hs2 Hbo]. destruct Hs0 as [Hs20 _].
    fold n in Hin.
    destruct (un_probeR _ _ _ _ _ _) as [[p' m]|] eqn:E; [|inversion Hin].
    destruct (nlt m mn) eqn:Em; [inversion Hin|]. destruct Hin as [->|[]].
    (* no progress means no repetition: each repetition of an atom or class consumes input *)
    assert (Hm0 : m = 0).
    { assert (Hp : forall p q, In q (Rop input ci multi o p) -> p <= q /\ True).
      { intros p0 q0 Hq0. split; auto. pose proof (body_ok_progress input ci multi hb o p0 q0 Hbo Hq0). lia. }
      assert (Hm : forall p q, In q (Rop input ci multi o p) -> 1 <= q - p).
      { intros p0 q0 Hq0. pose proof (body_ok_progress input ci multi hb o p0 q0 Hbo Hq0). lia. }
      destruct (un_probeR_spec _ mx n Hp 1 Hm _ _ _ _ _ E) as (U1 & U2 & U3). lia. }
    subst m. unfold nlt in Em. apply N.ltb_ge in Em. assert (mn = 0%N) by lia. subst mn.
    assert (B0 : Rop [] ci multi o 0 = []).
    { destruct (Rop [] ci multi o 0) as [|q rest] eqn:Eb; auto. exfalso.
      assert (Hin0 : In q (Rop [] ci multi o 0)) by (rewrite Eb; left; auto).
      pose proof (R0_le0 o q Hs20 Hin0). pose proof (body_ok_progress [] ci multi hb o 0 q Hbo Hin0). lia. }
    cbn [length]. Transparent un_probeR. cbn [un_probeR Nat.add]. rewrite B0.
    destruct (nlt 0 mx && Nat.leb 0 0); replace (nlt 0 0) with false by reflexivity; left; reflexivity.
Qed.
End Z.

(* the up-front guard is sufficient: a program (fragment, no shortcuts) that does not match the
   empty input never reports a zero-length match, on any input, from any search position *)
Theorem no_zero_length_match prog input :
  simple input (p_case prog) (p_multi prog) (p_hasbackrefs prog) (p_maxparens prog) (p_op prog) ->
  simple [] (p_case prog) (p_multi prog) (p_hasbackrefs prog) (p_maxparens prog) (p_op prog) ->
  (p_hasbol prog = false /\ p_minlen prog = 0%N /\ p_prefix prog = None /\ p_icc prog = None /\ p_pre prog = []) ->
  (forall s', matches prog [] 0 st0 <> MTrue s') ->
  forall i s s', i <= length input -> length (sb s) = length (eb s) ->
    matches prog input i s = MTrue s' ->
    exists k q, i <= k /\ k < q /\ q <= length input /\ get_pend s' 0 = Some q.
Proof.
  intros Hs Hs0 Hu Hne i s s' Hi Hl E.
  pose proof (matches_unopt_spec prog input Hs Hu i s Hi Hl) as M. rewrite E in M.
  destruct M as (k & q & rest & Hk & _ & Ek & Hq & Hp).
  assert (Hin : In q (Rop input (p_case prog) (p_multi prog) (p_op prog) k)) by (rewrite Ek; left; auto).
  destruct (min_length_sound input (p_case prog) (p_multi prog) (p_hasbackrefs prog) (p_maxparens prog)
                             (p_op prog) Hs k q Hin) as [Lkq _].
  exists k, q. repeat split; auto; try lia.
  destruct (Nat.eq_dec q k) as [->|]; [|lia]. exfalso.
  pose proof (zero_length_implies_empty input (p_case prog) (p_multi prog) (p_hasbackrefs prog) (p_maxparens prog)
                                        (p_op prog) Hs Hs0 k ltac:(lia) Hin) as Z.
  pose proof (matches_unopt_spec prog [] Hs0 Hu 0 st0 (le_n 0) eq_refl) as M0.
  destruct (matches prog [] 0 st0) as [s0|s0| |e] eqn:E0; try contradiction.
  - eapply Hne; eauto.
  - specialize (M0 0 ltac:(cbn; lia)). rewrite M0 in Z. inversion Z.
Qed.
