(* I1: the inversion-list algebra of Base/InvList.v is a set algebra (C09, C10, C11). *)
From RX Require Import Base.Prelude Base.InvList.
Local Open Scope N_scope.

Ltac bN :=
  repeat match goal with
         | |- context [N.leb ?a ?b] => destruct (N.leb_spec a b)
         | |- context [N.ltb ?a ?b] => destruct (N.ltb_spec a b)
         | |- context [N.eqb ?a ?b] => destruct (N.eqb_spec a b)
         | H : context [N.leb ?a ?b] |- _ => destruct (N.leb_spec a b)
         | H : context [N.ltb ?a ?b] |- _ => destruct (N.ltb_spec a b)
         end; cbn [andb orb negb] in *; try lia; try congruence; auto.

Lemma inr_spec c lo hi : inr c (lo, hi) = true <-> lo <= c <= hi.
Proof. unfold inr; cbn [fst snd]. bN; split; intros; try lia; try discriminate. Qed.

Lemma mem_cons s a b c : mem ((a, b) :: s) c = inr c (a, b) || mem s c.
Proof. reflexivity. Qed.

(* every range of the list is non-empty *)
Fixpoint ranges_ok (s : cset) : bool :=
  match s with [] => true | (a, b) :: t => (a <=? b) && ranges_ok t end.

Lemma hull a b lo hi c : a <= b -> lo <= hi -> ~ (hi + 1 < a) -> ~ (b + 1 < lo) ->
  inr c (N.min lo a, N.max hi b) = inr c (lo, hi) || inr c (a, b).
Proof. intros. unfold inr; cbn [fst snd]. bN. Qed.

Lemma mem_add_range : forall s lo hi c, ranges_ok s = true -> lo <= hi ->
  mem (add_range lo hi s) c = inr c (lo, hi) || mem s c.
Proof.
  induction s as [|[a b] t IH]; intros lo hi c Hok Hl.
  - cbn. rewrite orb_false_r. reflexivity.
  - cbn [ranges_ok] in Hok. apply andb_true_iff in Hok as [Hab Hok]. apply N.leb_le in Hab.
    cbn [add_range].
    destruct (N.ltb_spec (hi + 1) a) as [H1|H1].
    + reflexivity.
    + destruct (N.ltb_spec (b + 1) lo) as [H2|H2].
      * rewrite mem_cons, IH by auto. rewrite mem_cons.
        destruct (inr c (lo, hi)), (inr c (a, b)); reflexivity.
      * rewrite IH by (auto; lia). rewrite mem_cons, hull by lia.
        destruct (inr c (lo, hi)), (inr c (a, b)); reflexivity.
Qed.

Lemma ranges_ok_add_range : forall s lo hi, ranges_ok s = true -> lo <= hi ->
  ranges_ok (add_range lo hi s) = true.
Proof.
  induction s as [|[a b] t IH]; intros lo hi Hok Hl.
  - cbn. apply andb_true_iff; split; auto. apply N.leb_le; auto.
  - cbn [ranges_ok] in Hok. apply andb_true_iff in Hok as [Hab Hok]. apply N.leb_le in Hab.
    cbn [add_range].
    destruct (N.ltb_spec (hi + 1) a).
    + cbn [ranges_ok]. rewrite Hok. bN.
    + destruct (N.ltb_spec (b + 1) lo).
      * cbn [ranges_ok]. rewrite IH by auto. bN.
      * apply IH; auto; lia.
Qed.

Lemma ranges_ok_union a b : ranges_ok a = true -> ranges_ok b = true -> ranges_ok (union a b) = true.
Proof.
  intros Ha Hb. unfold union. induction b as [|[x y] t IH]; cbn [fold_right]; auto.
  cbn [ranges_ok] in Hb. apply andb_true_iff in Hb as [Hxy Hb]. apply N.leb_le in Hxy.
  apply ranges_ok_add_range; auto.
Qed.

Lemma mem_union a b c : ranges_ok a = true -> ranges_ok b = true ->
  mem (union a b) c = mem a c || mem b c.
Proof.
  intros Ha Hb. unfold union. induction b as [|[x y] t IH]; cbn [fold_right].
  - cbn. rewrite orb_false_r. reflexivity.
  - cbn [ranges_ok] in Hb. apply andb_true_iff in Hb as [Hxy Hb]. apply N.leb_le in Hxy.
    cbn [fst snd]. rewrite mem_add_range; auto.
    + rewrite IH by auto. rewrite mem_cons.
      destruct (inr c (x, y)), (mem a c), (mem t c); reflexivity.
    + apply (ranges_ok_union a t); auto.
Qed.

(* ---------------------------------------------------------------- well-formedness *)
Lemma wf_from_weaken : forall s st st', st' <= st -> wf_from st s = true -> wf_from st' s = true.
Proof.
  destruct s as [|[a b] t]; intros st st' Hle H; auto.
  cbn [wf_from] in *. repeat (apply andb_true_iff in H as [H ?]).
  repeat (apply andb_true_iff; split); auto. apply N.leb_le in H. apply N.leb_le. lia.
Qed.

Lemma wf_ranges_ok : forall s st, wf_from st s = true -> ranges_ok s = true.
Proof.
  induction s as [|[a b] t IH]; intros st H; auto.
  cbn [wf_from] in H. repeat (apply andb_true_iff in H as [H ?]).
  cbn [ranges_ok]. apply andb_true_iff; split; eauto.
Qed.

Lemma wf_add_range : forall s st lo hi, wf_from st s = true -> st <= lo -> lo <= hi -> hi <= max_cp ->
  wf_from st (add_range lo hi s) = true.
Proof.
  induction s as [|[a b] t IH]; intros st lo hi H Hs Hl Hm.
  - cbn [add_range wf_from]. bN.
  - cbn [wf_from] in H.
    apply andb_true_iff in H as [H Ht]. apply andb_true_iff in H as [H Hb].
    apply andb_true_iff in H as [Ha Hab].
    apply N.leb_le in Ha, Hab, Hb.
    cbn [add_range].
    destruct (N.ltb_spec (hi + 1) a).
    + cbn [wf_from]. rewrite Ht.
      replace (st <=? lo) with true by (symmetry; apply N.leb_le; lia).
      replace (lo <=? hi) with true by (symmetry; apply N.leb_le; lia).
      replace (hi <=? max_cp) with true by (symmetry; apply N.leb_le; lia).
      replace (hi + 2 <=? a) with true by (symmetry; apply N.leb_le; lia).
      replace (a <=? b) with true by (symmetry; apply N.leb_le; lia).
      replace (b <=? max_cp) with true by (symmetry; apply N.leb_le; lia). reflexivity.
    + destruct (N.ltb_spec (b + 1) lo).
      * cbn [wf_from]. rewrite IH by (auto; lia).
        replace (st <=? a) with true by (symmetry; apply N.leb_le; lia).
        replace (a <=? b) with true by (symmetry; apply N.leb_le; lia).
        replace (b <=? max_cp) with true by (symmetry; apply N.leb_le; lia). reflexivity.
      * apply IH; try lia. apply (wf_from_weaken t (b + 2)); auto. lia.
Qed.

Lemma wf_union a b : wf a = true -> wf b = true -> wf (union a b) = true.
Proof.
  unfold wf. intros Ha Hb. unfold union.
  assert (G : forall st, wf_from st b = true -> wf_from 0 (fold_right (fun r acc => add_range (fst r) (snd r) acc) a b) = true).
  { clear Hb. induction b as [|[x y] t IH]; intros st H; cbn [fold_right]; auto.
    cbn [wf_from] in H.
    apply andb_true_iff in H as [H Ht]. apply andb_true_iff in H as [H Hy].
    apply andb_true_iff in H as [Hx Hxy]. apply N.leb_le in Hx, Hxy, Hy.
    cbn [fst snd]. apply wf_add_range; try lia. eapply IH; eauto. }
  eapply G; eauto.
Qed.

(* ---------------------------------------------------------------- complement *)
Lemma mem_app s t c : mem (s ++ t) c = mem s c || mem t c.
Proof. unfold mem. apply existsb_app. Qed.

Lemma mem_compl_from : forall s st c, wf_from st s = true ->
  mem (compl_from st s) c = (st <=? c) && (c <=? max_cp) && negb (mem s c).
Proof.
  induction s as [|[a b] t IH]; intros st c H.
  - cbn [compl_from mem existsb negb]. rewrite andb_true_r.
    destruct (N.leb_spec st max_cp); cbn [mem existsb]; unfold inr; cbn [fst snd]; bN.
  - cbn [wf_from] in H.
    apply andb_true_iff in H as [H Ht]. apply andb_true_iff in H as [H Hb].
    apply andb_true_iff in H as [Ha Hab]. apply N.leb_le in Ha, Hab, Hb.
    cbn [compl_from]. rewrite mem_app, IH by (apply (wf_from_weaken t (b + 2)); auto; lia).
    rewrite mem_cons.
    assert (Ht' : forall x y, In (x, y) t -> b + 2 <= x).
    { clear IH. revert Ht. generalize (b + 2). induction t as [|[x0 y0] t' IHt]; intros st0 Hw x y Hin; [inversion Hin|].
      cbn [wf_from] in Hw. apply andb_true_iff in Hw as [Hw Hw']. apply andb_true_iff in Hw as [Hw Hy0].
      apply andb_true_iff in Hw as [Hx0 Hxy0]. apply N.leb_le in Hx0, Hxy0.
      destruct Hin as [E|Hin]; [inversion E; subst; lia|].
      specialize (IHt _ Hw' _ _ Hin). lia. }
    assert (Hm : c <= b + 1 -> mem t c = false).
    { intros Hc. unfold mem. apply not_true_is_false. intros E. apply existsb_exists in E as [[x y] [Hin Hr]].
      apply inr_spec in Hr. specialize (Ht' _ _ Hin). lia. }
    destruct (N.ltb_spec st a); cbn [mem existsb]; unfold inr; cbn [fst snd].
    + destruct (N.leb_spec c (b + 1)) as [Hc|Hc].
      * rewrite (Hm Hc). bN.
      * bN.
    + destruct (N.leb_spec c (b + 1)) as [Hc|Hc].
      * rewrite (Hm Hc). bN.
      * bN.
Qed.

Theorem mem_compl s c : wf s = true -> c <= max_cp -> mem (compl s) c = negb (mem s c).
Proof.
  intros H Hc. unfold compl. rewrite mem_compl_from by auto.
  replace (0 <=? c) with true by (symmetry; apply N.leb_le; lia).
  replace (c <=? max_cp) with true by (symmetry; apply N.leb_le; lia). reflexivity.
Qed.

Lemma wf_compl_from : forall s st, wf_from st s = true -> wf_from st (compl_from st s) = true.
Proof.
  induction s as [|[a b] t IH]; intros st H.
  - cbn [compl_from]. destruct (N.leb_spec st max_cp); cbn [wf_from]; bN.
  - cbn [wf_from] in H.
    apply andb_true_iff in H as [H Ht]. apply andb_true_iff in H as [H Hb].
    apply andb_true_iff in H as [Ha Hab]. apply N.leb_le in Ha, Hab, Hb.
    cbn [compl_from].
    assert (Hr : wf_from (b + 1) (compl_from (b + 1) t) = true).
    { apply IH. apply (wf_from_weaken t (b + 2)); auto. lia. }
    destruct (N.ltb_spec st a).
    + cbn [app wf_from].
      replace (st <=? st) with true by (symmetry; apply N.leb_le; lia).
      replace (st <=? a - 1) with true by (symmetry; apply N.leb_le; lia).
      replace (a - 1 <=? max_cp) with true by (symmetry; apply N.leb_le; lia).
      cbn [andb]. apply (wf_from_weaken _ (b + 1)); auto. lia.
    + cbn [app]. apply (wf_from_weaken _ (b + 1)); auto. lia.
Qed.

Lemma wf_compl s : wf s = true -> wf (compl s) = true.
Proof. apply wf_compl_from. Qed.

(* ---------------------------------------------------------------- intersection, difference *)
Lemma wf_ok s : wf s = true -> ranges_ok s = true.
Proof. apply wf_ranges_ok. Qed.

Theorem mem_inter a b c : wf a = true -> wf b = true -> c <= max_cp ->
  mem (inter a b) c = mem a c && mem b c.
Proof.
  intros Ha Hb Hc. unfold inter.
  rewrite mem_compl by (auto using wf_union, wf_compl).
  rewrite mem_union by (auto using wf_ok, wf_compl).
  rewrite !mem_compl by auto.
  destruct (mem a c), (mem b c); reflexivity.
Qed.

Lemma wf_inter a b : wf a = true -> wf b = true -> wf (inter a b) = true.
Proof. intros. unfold inter. auto using wf_union, wf_compl. Qed.

Theorem mem_diff a b c : wf a = true -> wf b = true -> c <= max_cp ->
  mem (diff a b) c = mem a c && negb (mem b c).
Proof.
  intros Ha Hb Hc. unfold diff. rewrite mem_inter by (auto using wf_compl).
  rewrite mem_compl by auto. reflexivity.
Qed.

Lemma wf_diff a b : wf a = true -> wf b = true -> wf (diff a b) = true.
Proof. intros. unfold diff. auto using wf_inter, wf_compl. Qed.

Lemma wf_empty : wf empty = true. Proof. reflexivity. Qed.
Lemma wf_all : wf all = true. Proof. reflexivity. Qed.
Lemma mem_all c : c <= max_cp -> mem all c = true.
Proof. intros. cbn. unfold inr; cbn [fst snd]. bN. Qed.

Lemma wf_add_range0 s lo hi : wf s = true -> lo <= hi -> hi <= max_cp -> wf (add_range lo hi s) = true.
Proof. intros. apply wf_add_range; auto. lia. Qed.
Lemma mem_add_char s a c : wf s = true -> mem (add_char a s) c = (a =? c) || mem s c.
Proof.
  intros. unfold add_char. rewrite mem_add_range by (auto using wf_ok; lia).
  f_equal. unfold inr; cbn [fst snd]. bN.
Qed.
