(* The interface facts of ReMatcher::matches, proved for every unoptimised program of the engine
   fragment whose captures are numbered from 1 and which does not match the empty string: a
   reported match has group 0 = (k, q) with search position <= k < q <= len, and the state handed
   back is again one the matcher accepts.  With them the scan-loop theorems about tokenize
   (ScanFacts) hold for these programs with no hypothesis about the matcher left. *)
From RX Require Import Base.Prelude Base.InvList Tables.Consts Model.Case Model.Op Model.Engine Model.Matcher
     Model.Compiler Model.Api Proofs.EngineFacts Proofs.MatcherFacts Proofs.EngineCorollaries Proofs.LengthFacts Proofs.ShortcutFacts Proofs.NullableFacts
     Proofs.ScanFacts Proofs.FrameFacts.
Transparent setg.

(* writing a group other than 0 leaves entry 0 of the array alone *)
Lemma grow_nth0 : forall fuel (l : list (option nat)) g, 1 <= length l -> nth_error (grow l fuel g) 0 = nth_error l 0.
Proof.
  induction fuel as [|f IH]; intros l g Hl; cbn [grow]; [reflexivity|].
  destruct (Nat.ltb g (length l)); [reflexivity|].
  rewrite IH by (rewrite app_length; lia). destruct l; [cbn in Hl; lia|reflexivity].
Qed.
Lemma upd_nth0 {A} (l : list A) g v : 1 <= g -> nth_error (upd l g v) 0 = nth_error l 0.
Proof. intros Hg. destruct l as [|h t]; [reflexivity|]. destruct g; [lia|reflexivity]. Qed.
Lemma setg_nth0 l g v : 1 <= g -> 1 <= length l -> nth_error (setg l g v) 0 = nth_error l 0.
Proof. intros Hg Hl. unfold setg. rewrite upd_nth0 by exact Hg. apply grow_nth0. exact Hl. Qed.
Lemma setg0_nth_error l v : 1 <= length l -> nth_error (setg l 0 v) 0 = Some (Some v).
Proof.
  intros Hl. unfold setg.
  assert (G : forall fuel l0, 1 <= length l0 -> grow l0 fuel 0 = l0).
  { induction fuel; intros l0 H0; cbn [grow]; auto. destruct l0; cbn [length] in *; [lia|]. reflexivity. }
  rewrite G by auto. destruct l; cbn in *; [lia|reflexivity].
Qed.
Opaque setg.

(* group 0 starts at i *)
Definition start0 (i : nat) (s : mstate) : Prop := nth_error (startn (cs_ s)) 0 = Some (Some i).

Lemma start0_get i s : start0 i s -> get_pstart s 0 = Some i.
Proof.
  unfold start0, get_pstart. intros H.
  assert (0 < length (startn (cs_ s))) by (apply nth_error_Some; congruence).
  replace (Nat.ltb 0 (length (startn (cs_ s)))) with true by (symmetry; apply Nat.ltb_lt; lia).
  destruct (startn (cs_ s)); [discriminate|]. cbn in *. congruence.
Qed.

Section FA.
Variable prog : program.
Variable input : list N.
Let n := length input.
Hypothesis Hsimple : simple input (p_case prog) (p_multi prog) (p_hasbackrefs prog) (p_maxparens prog) (p_op prog).
Hypothesis Hframed : framed (p_op prog).
Hypothesis Hunopt : p_hasbol prog = false /\ p_minlen prog = 0%N /\ p_prefix prog = None
                    /\ p_icc prog = None /\ p_pre prog = [].

Lemma frame_start0 i path p s : start0 i s ->
  SP (start0 i) (mi input (p_case prog) (p_multi prog) (p_hasbackrefs prog) (p_op prog) path p s).
Proof.
  intros Hs. apply mi_frame; [| | | | | | |exact Hframed|exact Hs]; unfold start0.
  - intros g q s0 H. exact H.
  - intros g q s0 Hg H. unfold set_pstart, with_cs. cbn [cs_ startn].
    rewrite setg_nth0; [exact H|exact Hg|]. apply (proj1 (nth_error_Some (startn (cs_ s0)) 0)). rewrite H. discriminate.
  - intros k s0 H. exact H.
  - intros g v s0 s1 E H. unfold set_sb in E. destruct (Nat.ltb g (length (sb s0))); [|discriminate].
    injection E as <-. exact H.
  - intros g v s0 s1 E H. unfold set_eb in E. destruct (Nat.ltb g (length (eb s0))); [|discriminate].
    injection E as <-. exact H.
  - intros pos s0 s1 E H. unfold clear_beyond in E.
    destruct (clear_arr (startn (cs_ s0)) (endn (cs_ s0)) pos); [|discriminate].
    destruct (clear_arr (sb s0) (eb s0) pos); [|discriminate]. injection E as <-. exact H.
  - intros s0 s1 H _. exact H.
Qed.

(* one attempt: if it succeeds, group 0 starts where it was made *)
Lemma match_at_start i s s' : 1 <= length (startn (cs_ s)) ->
  match_at prog input i s = MTrue s' -> get_pstart s' 0 = Some i.
Proof.
  intros Hl E. unfold match_at in E.
  set (s1 := set_pstart 0 i (set_pcount 1 s)) in E.
  set (s2 := {| cs_ := cs_ s1;
                sb := if p_hasbackrefs prog then repeat None (p_maxparens prog) else sb s1;
                eb := if p_hasbackrefs prog then repeat None (p_maxparens prog) else eb s1;
                anchored := false; hist := [] |}) in E.
  assert (Q2 : start0 i s2).
  { unfold start0, s2, s1, set_pstart, set_pcount, with_cs. cbn [cs_ startn]. apply setg0_nth_error. exact Hl. }
  pose proof (frame_start0 i [0] i s2 Q2) as F.
  destruct (mi input (p_case prog) (p_multi prog) (p_hasbackrefs prog) (p_op prog) [0] i s2) as [s3|q s3 r| |k];
    try discriminate.
  injection E as <-. inversion F as [|? ? ? H3 _| |]; subst.
  apply start0_get. unfold start0, set_pend, with_cs. cbn [cs_ startn]. exact H3.
Qed.

(* the search loop, with the start of the reported match *)
Lemma try_from_start : forall fuel j s, j + fuel <= n + 1 -> wf0 s ->
  match try_from prog input fuel j (fun _ => true) s with
  | MTrue s' => exists k q rest, j <= k < j + fuel
                            /\ (forall m, j <= m < k -> Rop input (p_case prog) (p_multi prog) (p_op prog) m = [])
                            /\ Rop input (p_case prog) (p_multi prog) (p_op prog) k = q :: rest /\ q <= n
                            /\ get_pstart s' 0 = Some k /\ get_pend s' 0 = Some q /\ wf0 s'
  | MFalse s' => (forall m, j <= m < j + fuel -> Rop input (p_case prog) (p_multi prog) (p_op prog) m = []) /\ wf0 s'
  | MOut | MPanic _ => False
  end.
Proof.
  induction fuel as [|f IH]; intros j s Hj Ws; cbn [try_from]; [split; [intros m Hm; lia|exact Ws]|].
  pose proof (match_at_spec prog input Hsimple j s ltac:(lia) Ws) as M.
  pose proof (match_at_start j s) as St.
  destruct (match_at prog input j s) as [s'|s'| |k]; try contradiction.
  - destruct M as (q & rest & E & Hq & Hp & Ws').
    exists j, q, rest. split; [lia|]. split; [intros m Hm; lia|]. split; [exact E|]. split; [exact Hq|].
    split; [apply St; [apply Ws|reflexivity]|]. split; [exact Hp|exact Ws'].
  - destruct M as [E0 Ws']. specialize (IH (S j) s' ltac:(lia) Ws').
    destruct (try_from prog input f (S j) (fun _ => true) s') as [s''|s''| |k]; try contradiction.
    + destruct IH as (k & q & rest & Hk & Hb & Rest). exists k, q, rest. split; [lia|]. split; [|exact Rest].
      intros m Hm. destruct (Nat.eq_dec m j) as [->|]; [exact E0|apply Hb; lia].
    + destruct IH as [Hb Ws'']. split; [|exact Ws''].
      intros m Hm. destruct (Nat.eq_dec m j) as [->|]; [exact E0|apply Hb; lia].
Qed.

Lemma wf0_cs0' s : length (sb s) = length (eb s) -> wf0 (with_cs cs0 s).
Proof.
  intros H. unfold wf0, with_cs, cs0. cbn [cs_ startn endn sb eb]. rewrite !repeat_length.
  unfold capture_initial_len. repeat split; auto.
Qed.

(* the invariant of the matcher state between calls *)
Definition minv (s : mstate) : Prop := length (sb s) = length (eb s).

Lemma wf0_minv s : wf0 s -> minv s.
Proof. intros (_ & _ & H). exact H. Qed.

Theorem matches_span i s : i <= n -> minv s ->
  match matches prog input i s with
  | MTrue s' => exists k q rest, i <= k /\ (forall m, i <= m < k -> Rop input (p_case prog) (p_multi prog) (p_op prog) m = [])
                            /\ Rop input (p_case prog) (p_multi prog) (p_op prog) k = q :: rest /\ q <= n
                            /\ get_pstart s' 0 = Some k /\ get_pend s' 0 = Some q /\ minv s'
  | MFalse s' => (forall m, i <= m <= n -> Rop input (p_case prog) (p_multi prog) (p_op prog) m = []) /\ minv s'
  | MOut | MPanic _ => False
  end.
Proof.
  intros Hi Hinv. destruct Hunopt as (U1 & U2 & U3 & U4 & U5).
  unfold matches. rewrite U1, U2, U3, U4, U5. fold n.
  replace (Nat.ltb n i) with false by (symmetry; apply Nat.ltb_ge; lia).
  replace (N.ltb (N.of_nat (n - i)) 0) with false by (symmetry; apply N.ltb_ge; lia).
  cbn [check_pre].
  pose proof (try_from_start (n + 1 - i) i _ ltac:(lia) (wf0_cs0' s Hinv)) as T.
  destruct (try_from prog input (n + 1 - i) i (fun _ => true) (with_cs cs0 s)) as [s'|s'| |k]; try contradiction.
  - destruct T as (k & q & rest & Hk & Hb & Hin & Hq & P1 & P2 & W). exists k, q, rest.
    split; [lia|]. split; [exact Hb|]. split; [exact Hin|]. split; [exact Hq|]. split; [exact P1|]. split; [exact P2|].
    apply wf0_minv. exact W.
  - destruct T as [Hb W]. split; [intros m Hm; apply Hb; lia|apply wf0_minv; exact W].
Qed.

(* a program that does not match the empty string reports no empty match *)
Hypothesis Hsimple0 : simple [] (p_case prog) (p_multi prog) (p_hasbackrefs prog) (p_maxparens prog) (p_op prog).
Hypothesis Hnonnull : forall s', matches prog [] 0 st0 <> MTrue s'.

Theorem fragment_good_step : good_step_on (matches prog input) input minv.
Proof.
  intros pos s Hpos Hinv. pose proof (matches_span pos s Hpos Hinv) as M.
  destruct (matches prog input pos s) as [s'|s'| |k0] eqn:Em; [|exact (proj2 M)|exact M|exact M].
  destruct M as (k & q & rest & Hk & _ & Hin0 & Hq & P1 & P2 & Hinv'). split; [|exact Hinv'].
  assert (Hin : In q (Rop input (p_case prog) (p_multi prog) (p_op prog) k)) by (rewrite Hin0; left; reflexivity).
  exists k, q. repeat split; auto.
  (* not empty *)
  destruct (min_length_sound input (p_case prog) (p_multi prog) (p_hasbackrefs prog) (p_maxparens prog)
                             (p_op prog) Hsimple k q Hin) as [Lkq _].
  destruct (Nat.eq_dec q k) as [->|]; [|lia]. exfalso.
  pose proof (zero_length_implies_empty input (p_case prog) (p_multi prog) (p_hasbackrefs prog) (p_maxparens prog)
                                        (p_op prog) Hsimple Hsimple0 k ltac:(fold n; lia) Hin) as Z.
  pose proof (matches_unopt_spec prog [] Hsimple0 Hunopt 0 st0 (le_n 0) eq_refl) as M0.
  destruct (matches prog [] 0 st0) as [s0|s0| |e] eqn:E0; try contradiction.
  - eapply Hnonnull; eauto.
  - specialize (M0 0 ltac:(cbn; lia)). rewrite M0 in Z. inversion Z.
Qed.

(* tokenize on the fragment, no hypothesis about the matcher left: the pieces between the matches
   the scan visits; at most len+1 of them *)
Theorem fragment_tokenize k pe s : minv s -> n - pe < k -> pe <= n ->
  tok_all (matches prog input) input (S (S k)) {| t_prev := Some pe; t_ms := s |}
  = Ok (pieces input (scan (matches prog input) input (S k) pe s) pe).
Proof. apply (tok_all_spec_on _ _ minv fragment_good_step). Qed.

Theorem fragment_token_bound s : minv s ->
  exists l, tok_all (matches prog input) input (S (S (S n))) {| t_prev := Some 0; t_ms := s |} = Ok l /\ length l <= n + 1.
Proof. apply (tok_count_bound_on _ _ minv fragment_good_step). Qed.
End FA.

(* non-vacuity: the unoptimised program of a(b|cc)x, with its capturing group *)
Definition exc_prog : program :=
  mk_program_unopt [] (OSeq [OAtom [97%N]; OCapture 1 (OChoice [OAtom [98%N]; OAtom [99%N; 99%N]]); OAtom [120%N]; OEnd])
                   2 false false false false.
Example exc_simple input : simple input false false false 2 (p_op exc_prog).
Proof. cbn. repeat split; auto; discriminate. Qed.
Example exc_framed : framed (p_op exc_prog).
Proof. cbn. repeat split; auto. Qed.
Example exc_unopt : p_hasbol exc_prog = false /\ p_minlen exc_prog = 0%N /\ p_prefix exc_prog = None
                    /\ p_icc exc_prog = None /\ p_pre exc_prog = [].
Proof. repeat split. Qed.
Example exc_nonnull : forall s', matches exc_prog [] 0 st0 <> MTrue s'.
Proof. intros s'. vm_compute. discriminate. Qed.
Example exc_minv : minv st0.
Proof. reflexivity. Qed.
Example exc_tokens : tok_all (matches exc_prog [49; 97; 98; 120; 50; 97; 99; 99; 120]%N) [49; 97; 98; 120; 50; 97; 99; 99; 120]%N
                        12 {| t_prev := Some 0; t_ms := st0 |} = Ok [[49%N]; [50%N]; []].
Proof. vm_compute. reflexivity. Qed.
