(* C13: is_match of a literal (flag q) program is substring search - through the optimised search
   loop (minimum-length cut-off and prefix scan) - for every pattern text and every input. *)
From RX Require Import Base.Prelude Base.InvList Tables.Consts Model.Case Model.Op Model.Engine Model.Matcher
     Model.Compiler Model.Api Proofs.EngineFacts Proofs.MatcherFacts Proofs.LeafFacts.

Section L.
Variable p : list N.          (* the literal pattern *)
Variable ci multi lit : bool.
Variable input : list N.
Let n := length input.
Let prog := mk_program p (OSeq [OAtom p; OEnd]) 1 ci multi lit false.
(* the pattern is an object that exists: its length is a usize *)
Hypothesis Hfit : (N.of_nat (length p) <= umax)%N.

(* the literal occurs at offset m (compared case-blind under flag i) *)
Definition occurs_at (m : nat) : bool :=
  Nat.leb (m + length p) n && starts_with (ceq ci) p (skipn m input).

Lemma simple_lit : simple input ci multi false 1 (OSeq [OAtom p; OEnd]).
Proof. cbn. repeat split; auto. discriminate. Qed.

Lemma R_lit m : Rop input ci multi (OSeq [OAtom p; OEnd]) m = if occurs_at m then [m + length p] else [].
Proof.
  cbn [Rop]. unfold occurs_at. fold n.
  destruct (Nat.ltb n (m + length p)) eqn:E.
  - apply Nat.ltb_lt in E. replace (Nat.leb (m + length p) n) with false by (symmetry; apply Nat.leb_gt; lia).
    reflexivity.
  - apply Nat.ltb_ge in E. replace (Nat.leb (m + length p) n) with true by (symmetry; apply Nat.leb_le; lia).
    cbn [andb]. destruct (starts_with (ceq ci) p (skipn m input)); reflexivity.
Qed.

Lemma wf0_cs0 s : length (sb s) = length (eb s) -> wf0 (with_cs cs0 s).
Proof.
  intros H. unfold wf0, with_cs, cs0. cbn [cs_ startn endn sb eb]. rewrite !repeat_length.
  unfold capture_initial_len. repeat split; auto.
Qed.

(* the search loop with a filter that only skips positions without a match *)
Lemma try_from_filter_spec (filter : nat -> bool)
      (Hf : forall j, filter j = false -> occurs_at j = false) :
  forall fuel j s, j + fuel <= n + 1 -> wf0 s ->
  match try_from prog input fuel j filter s with
  | MTrue s' => exists k, j <= k < j + fuel /\ (forall m, j <= m < k -> occurs_at m = false) /\ occurs_at k = true
                          /\ get_pend s' 0 = Some (k + length p)
  | MFalse s' => forall m, j <= m < j + fuel -> occurs_at m = false
  | MOut | MPanic _ => False
  end.
Proof.
  induction fuel as [|f IH]; intros j s Hj Ws; cbn [try_from].
  - intros m Hm. lia.
  - destruct (filter j) eqn:Fj.
    + pose proof (match_at_spec prog input simple_lit j s ltac:(lia) Ws) as M.
      change (p_case prog) with ci in M. change (p_multi prog) with multi in M.
      change (p_op prog) with (OSeq [OAtom p; OEnd]) in M.
      destruct (match_at prog input j s) as [s'|s'| |k]; try contradiction.
      * destruct M as (q & rest & E & Hq & Hp & _). rewrite R_lit in E.
        destruct (occurs_at j) eqn:Oj; [|discriminate]. injection E as <- <-.
        exists j. repeat split; auto; try lia.
      * destruct M as [E Ws']. rewrite R_lit in E.
        destruct (occurs_at j) eqn:Oj; [discriminate|].
        specialize (IH (S j) s' ltac:(lia) Ws').
        destruct (try_from prog input f (S j) filter s') as [s''|s''| |k]; try contradiction.
        -- destruct IH as (k & Hk & Hb & Ok & Hp). exists k. repeat split; auto; try lia.
           intros m Hm. destruct (Nat.eq_dec m j) as [->|]; auto. apply Hb. lia.
        -- intros m Hm. destruct (Nat.eq_dec m j) as [->|]; auto. apply IH. lia.
    + specialize (IH (S j) s ltac:(lia) Ws).
      destruct (try_from prog input f (S j) filter s) as [s''|s''| |k]; try contradiction.
      * destruct IH as (k & Hk & Hb & Ok & Hp). exists k. repeat split; auto; try lia.
        intros m Hm. destruct (Nat.eq_dec m j) as [->|]; auto. apply Hb. lia.
      * intros m Hm. destruct (Nat.eq_dec m j) as [->|]; auto. apply IH. lia.
Qed.

Theorem literal_matches_spec i s_in : i <= n -> length (sb s_in) = length (eb s_in) ->
  match matches prog input i s_in with
  | MTrue s' => exists k, i <= k /\ (forall m, i <= m < k -> occurs_at m = false) /\ occurs_at k = true
                          /\ get_pend s' 0 = Some (k + length p)
  | MFalse _ => forall m, i <= m -> occurs_at m = false
  | MOut | MPanic _ => False
  end.
Proof.
  intros Hi Hs. unfold matches.
  change (p_hasbol prog) with false. cbn [negb]. fold n.
  replace (Nat.ltb n i) with false by (symmetry; apply Nat.ltb_ge; lia).
  change (p_minlen prog) with (sadd (sadd 0 (N.of_nat (length p))) 0).
  change (p_prefix prog) with (Some p).
  assert (Hout : forall m, n < m + length p -> occurs_at m = false).
  { intros m Hm. unfold occurs_at. fold n.
    replace (Nat.leb (m + length p) n) with false by (symmetry; apply Nat.leb_gt; lia). reflexivity. }
  assert (Hmin : sadd (sadd 0 (N.of_nat (length p))) 0 = N.of_nat (length p)).
  { unfold sadd. rewrite N.add_0_l. rewrite (N.min_l _ _ Hfit). rewrite N.add_0_r. apply N.min_l. exact Hfit. }
  destruct (N.ltb_spec (N.of_nat (n - i)) (sadd (sadd 0 (N.of_nat (length p))) 0)) as [Lt|Ge].
  - (* shorter than the minimum length: no occurrence can fit *)
    intros m Hm. apply Hout. rewrite Hmin in Lt. lia.
  - assert (Hlen : length p <= n - i) by (rewrite Hmin in Ge; lia).
    replace (Nat.ltb (n + 1) (length p)) with false by (symmetry; apply Nat.ltb_ge; lia).
    pose proof (try_from_filter_spec
                  (fun j => starts_with (fun a b => ceqp prog b a) p (skipn j input))) as T.
    assert (Hf : forall j, starts_with (fun a b => ceqp prog b a) p (skipn j input) = false -> occurs_at j = false).
    { intros j Hj. unfold occurs_at.
      assert (E : starts_with (fun a b => ceqp prog b a) p (skipn j input) = starts_with (ceq ci) p (skipn j input)).
      { generalize (skipn j input). clear. induction p as [|x t IH]; intros [|y l]; cbn; auto.
        rewrite IH. f_equal. unfold ceqp, ceq. change (p_case prog) with ci.
        destruct ci; [|apply N.eqb_sym].
        unfold equal_case_blind. rewrite (N.eqb_sym y x), (N.eqb_sym (simple_lower y)). reflexivity. }
      rewrite <- E, Hj. apply andb_false_r. }
    specialize (T Hf (n + 1 - length p - i) i (with_cs cs0 s_in) ltac:(lia) (wf0_cs0 s_in Hs)).
    destruct (try_from prog input (n + 1 - length p - i) i _ (with_cs cs0 s_in)) as [s'|s'| |k]; try contradiction.
    + destruct T as (k & Hk & Hb & Ok & Hp). exists k. repeat split; auto; lia.
    + intros m Hm. destruct (Nat.lt_ge_cases m (i + (n + 1 - length p - i))) as [L|G].
      * apply T. lia.
      * apply Hout. lia.
Qed.
End L.
