(* C07 / C05, the {n,m} parser: whatever the pattern text, bracket() either reports a classified
   error or leaves bounds with min <= max <= usize::MAX and has consumed at least "{d}"; it never
   panics and has no loop that could run out of fuel. *)
From RX Require Import Base.Prelude Base.InvList Model.Case Model.Op Model.Compiler.
Local Open Scope N_scope.

Lemma digits_idx pat : forall fuel i acc, (i <= fst (digits pat fuel i acc))%nat.
Proof.
  induction fuel as [|f IH]; intros i acc; cbn [digits fst]; [lia|].
  destruct (at_ pat i) as [c|]; [|cbn; lia]. destruct (is_digit c); [|cbn; lia].
  specialize (IH (S i) (acc * 10 + (c - 48))). lia.
Qed.

Theorem bracket_spec pat st :
  match bracket pat st with
  | Ok st' => bmin st' <= bmax st' /\ bmax st' <= umax /\ (idx st + 2 < idx st')%nat
              /\ parens st' = parens st /\ captures st' = captures st
  | Err e => e = ESyntax \/ e = EInternal
  | Panic _ | Out => False
  end.
Proof.
  unfold bracket.
  destruct (Nat.leb (length pat) (idx st)); [auto|].
  destruct (negb (is_at pat (idx st) c_lbrace)); [auto|].
  destruct (Nat.leb (length pat) (S (idx st)) || negb (match at_ pat (S (idx st)) with Some c => is_digit c | None => false end)) eqn:E0; [auto|].
  apply orb_false_iff in E0 as [E00 E0]. apply negb_false_iff in E0. apply Nat.leb_gt in E00.
  pose proof (digits_idx pat (length pat) (S (idx st)) 0) as D1.
  assert (D1' : (S (S (idx st)) <= fst (digits pat (length pat) (S (idx st)) 0))%nat).
  { destruct (length pat) as [|l]; [lia|].
    cbn [digits]. destruct (at_ pat (S (idx st))) as [c|]; [|discriminate]. rewrite E0.
    pose proof (digits_idx pat l (S (S (idx st))) (0 * 10 + (c - 48))). lia. }
  destruct (digits pat (length pat) (S (idx st)) 0) as [i mn]. cbn [fst] in *.
  destruct (umax <? mn) eqn:Em; [auto|]. apply N.ltb_ge in Em.
  destruct (Nat.leb (length pat) i); [auto|].
  destruct (is_at pat i c_rbrace).
  { cbn [bmin bmax idx parens captures]. repeat split; auto; lia. }
  destruct (negb (is_at pat i c_comma)); [auto|].
  destruct (Nat.leb (length pat) (S i)); [auto|].
  destruct (is_at pat (S i) c_rbrace).
  { cbn [bmin bmax idx parens captures]. repeat split; auto; lia. }
  destruct (negb (match at_ pat (S i) with Some c => is_digit c | None => false end)); [auto|].
  pose proof (digits_idx pat (length pat) (S i) 0) as D2.
  destruct (digits pat (length pat) (S i) 0) as [i2 mx]. cbn [fst] in *.
  destruct (umax <? mx) eqn:Ex; [auto|]. apply N.ltb_ge in Ex.
  destruct (mx <? mn) eqn:Exm; [auto|]. apply N.ltb_ge in Exm.
  destruct (Nat.leb (length pat) i2 || negb (is_at pat i2 c_rbrace)); [auto|].
  cbn [bmin bmax idx parens captures]. repeat split; auto; lia.
Qed.
