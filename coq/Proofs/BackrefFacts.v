(* C19, the matching clause at the level of the operation: given what the back-reference arrays
   hold for group g, the BackReference operation yields exactly what the specification's
   [copy_at] prescribes - a copy of the recorded text (compared like literals, case-blind under
   flag i) must follow at p, and the match ends after it; a group that has not participated
   matches the empty string.  Which text the arrays hold on the selected path is the capture
   discipline (known finding KF-D9-backref); this theorem is the part that does not depend on it. *)
From RX Require Import Base.Prelude Base.InvList Spec.Syntax Spec.Parse Spec.CharSet Spec.Sem.
From RX Require Import Model.Case Model.Op Model.Engine Proofs.LeafFacts.

Lemma lit_eq_sym ci a b : lit_eq ci a b = lit_eq ci b a.
Proof. unfold lit_eq. rewrite (N.eqb_sym a b), (N.eqb_sym (simple_lower a)). reflexivity. Qed.

Lemma starts_with_list_eqb ci : forall (pre rest : list N), length pre <= length rest ->
  starts_with (fun a b => ceq ci b a) pre rest = list_eqb (lit_eq ci) pre (firstn (length pre) rest).
Proof.
  induction pre as [|x t IH]; intros rest Hl; cbn [starts_with length firstn list_eqb]; [reflexivity|].
  destruct rest as [|y r]; [cbn in Hl; lia|]. cbn [list_eqb]. cbn [length] in Hl.
  rewrite ceq_lit_eq, lit_eq_sym, IH by lia. reflexivity.
Qed.

Section B.
Variable input : list N.
Variable ci multi hb : bool.
Variable fl : sflags.
Hypothesis Hci : s_i fl = ci.
Let n := length input.

Theorem backref_copy g path p s st e :
  nth_error (sb s) g = Some (Some st) -> nth_error (eb s) g = Some (Some e) ->
  st <= e -> e <= n -> p <= n ->
  mi input ci multi hb (OBackref g) path p s
  = if copy_at fl input st e p then once (p + (e - st)) s else LNil s.
Proof.
  intros Hs He Hse Hen Hp. cbn [mi]. rewrite Hs, He. unfold copy_at. rewrite Hci. fold n.
  destruct (Nat.eqb st e) eqn:Eq.
  - apply Nat.eqb_eq in Eq. subst e. rewrite Nat.sub_diag. cbn [firstn list_eqb]. rewrite Nat.add_0_r.
    replace (Nat.leb p n) with true by (symmetry; apply Nat.leb_le; lia). reflexivity.
  - apply Nat.eqb_neq in Eq. replace (Nat.ltb e st) with false by (symmetry; apply Nat.ltb_ge; lia).
    destruct (Nat.leb n (p + (e - st) - 1)) eqn:E1.
    + apply Nat.leb_le in E1. replace (Nat.leb (p + (e - st)) n) with false by (symmetry; apply Nat.leb_gt; lia).
      reflexivity.
    + apply Nat.leb_gt in E1. replace (Nat.leb (p + (e - st)) n) with true by (symmetry; apply Nat.leb_le; lia).
      replace (Nat.ltb n e) with false by (symmetry; apply Nat.ltb_ge; lia). cbn [andb].
      unfold slice.
      assert (L1 : length (firstn (e - st) (skipn st input)) = e - st).
      { rewrite firstn_length, skipn_length. fold n. lia. }
      rewrite (starts_with_list_eqb ci (firstn (e - st) (skipn st input)) (skipn p input)).
      * rewrite L1. reflexivity.
      * rewrite L1, skipn_length. fold n. lia.
Qed.

(* a group that has not participated: the empty string *)
Theorem backref_unset g path p s a b :
  nth_error (sb s) g = Some a -> nth_error (eb s) g = Some b -> (a = None \/ b = None) ->
  mi input ci multi hb (OBackref g) path p s = once p s.
Proof.
  intros Hs He H. cbn [mi]. rewrite Hs, He. destruct H as [->| ->]; [reflexivity|destruct a; reflexivity].
Qed.
End B.
