(* Case data of the linked ICU4X build, as lookup maps over the generated tables. *)
From Coq Require Import FSets.FMapPositive.
From RX Require Import Base.Prelude Base.InvList Tables.IcuCase.
Local Open Scope N_scope.

Definition key (c : N) : positive := N.succ_pos c.

Definition lower_map : PositiveMap.t N :=
  fold_left (fun m kv => PositiveMap.add (key (fst kv)) (snd kv) m) lower_table (PositiveMap.empty N).
Definition closure_map : PositiveMap.t cset :=
  fold_left (fun m kv => PositiveMap.add (key (fst kv)) (snd kv) m) closure_table (PositiveMap.empty cset).

(* CaseMapper::simple_lowercase *)
Definition simple_lower (c : N) : N :=
  match PositiveMap.find (key c) lower_map with Some l => l | None => c end.
(* what CaseMapCloser::add_case_closure_to(c, _) adds (never c itself) *)
Definition closure_of (c : N) : cset :=
  match PositiveMap.find (key c) closure_map with Some s => s | None => [] end.
Definition add_case_closure (c : N) (b : cset) : cset := union b (closure_of c).
(* for c in lo..=hi { add_case_closure_to(c, b) } *)
Definition add_case_closure_range (lo hi : N) (b : cset) : cset :=
  fold_left (fun acc kv => if (lo <=? fst kv) && (fst kv <=? hi) then union acc (snd kv) else acc)
            closure_table b.

(* ReMatcher::equal_case_blind *)
Definition equal_case_blind (a b : N) : bool :=
  (a =? b) || (simple_lower a =? simple_lower b).
