(* The Operation enum of operation.rs and its static analyses (op_*.rs, OperationControl). *)
From RX Require Import Base.Prelude Base.InvList Tables.Consts Model.Case.
Local Open Scope N_scope.

Inductive op :=
| OBol | OEol | ONothing | OEnd
| OAtom (cs : list N)
| OCls (s : cset)
| OBackref (g : nat)
| OCapture (g : nat) (o : op)
| OChoice (bs : list op)
| OSeq (os : list op)
| ORepeat (o : op) (mn mx : N) (greedy : bool)
| OGFixed (o : op) (mn mx : N) (len : N)
| ORFixed (o : op) (mn mx : N) (len : N)
| OUnamb (o : op) (mn mx : N).

(* usize arithmetic as the code now performs it: checked_* / saturating_* *)
Definition cadd (a b : N) : option N := let r := a + b in if r <=? umax then Some r else None.
Definition cmul (a b : N) : option N := let r := a * b in if r <=? umax then Some r else None.
Definition sadd (a b : N) : N := N.min (a + b) umax.
Definition smul (a b : N) : N := N.min (a * b) umax.

Definition opt_N_eqb (a b : option N) : bool :=
  match a, b with Some x, Some y => x =? y | None, None => true | _, _ => false end.

Fixpoint match_length (o : op) : option N :=
  match o with
  | OBol | OEol | ONothing | OEnd => Some 0
  | OAtom cs => Some (N.of_nat (length cs))
  | OCls _ => Some 1
  | OBackref _ => None
  | OCapture _ o' => match_length o'
  | OChoice bs =>
      match bs with
      | [] => None   (* the code unwraps the first branch; compile never builds an empty Choice *)
      | b :: rest => let f := match_length b in
                     if forallb (fun x => opt_N_eqb (match_length x) f) rest then f else None
      end
  | OSeq os =>
      fold_left (fun acc x => match acc, match_length x with
                              | Some a, Some l => cadd a l | _, _ => None end) os (Some 0)
  | ORepeat o' mn mx _ | OUnamb o' mn mx =>
      match match_length o' with
      | Some l => if mn =? mx then cmul mn l else None
      | None => None
      end
  | OGFixed _ mn mx len | ORFixed _ mn mx len => if mn =? mx then cmul mn len else None
  end.

Fixpoint min_length (o : op) : N :=
  match o with
  | OBackref _ => 0
  | OCapture _ o' => min_length o'
  | OChoice bs =>
      match bs with
      | [] => 0
      | b :: rest => fold_left (fun m x => let k := min_length x in if k <? m then k else m) rest (min_length b)
      end
  | OSeq os => fold_left (fun acc x => sadd acc (min_length x)) os 0
  | ORepeat o' mn _ _ | OUnamb o' mn _ | OGFixed o' mn _ _ | ORFixed o' mn _ _ => smul mn (min_length o')
  | OBol | OEol | ONothing | OEnd => 0
  | OAtom cs => N.of_nat (length cs)
  | OCls _ => 1
  end.

Definition zls_start := matches_zls_at_start.
Definition zls_end := matches_zls_at_end.
Definition zls_any := matches_zls_anywhere.
Definition zls_never := matches_zls_never.

Fixpoint mes (o : op) : N :=     (* matches_empty_string *)
  match o with
  | OBol => zls_start
  | OEol => zls_end
  | ONothing | OEnd => zls_any
  | OAtom cs => match cs with [] => zls_any | _ => zls_never end
  | OCls _ => zls_never
  | OBackref _ => 0
  | OCapture _ o' => mes o'
  | OChoice bs => fold_left (fun acc b => let m := mes b in if m =? zls_never then acc else N.lor acc m) bs 0
  | OSeq os =>
      let ms := map mes os in
      let fix first_loop (l : list N) : N :=      (* 0 = all anywhere, 1 = never seen, 2 = broke off *)
          match l with
          | [] => 0
          | m :: t => if m =? zls_never then 1 else if negb (m =? zls_any) then 2 else first_loop t
          end in
      match first_loop ms with
      | 0 => zls_any
      | 1 => zls_never
      | _ =>
          if forallb (fun m => negb (N.land m zls_start =? 0)) ms then zls_start
          else if forallb (fun m => negb (N.land m zls_end =? 0)) ms then zls_end
          else 0
      end
  | ORepeat o' mn _ _ | OUnamb o' mn _ | OGFixed o' mn _ _ | ORFixed o' mn _ _ =>
      if mn =? 0 then zls_any else mes o'
  end.

Definition is_capture (o : op) : bool := match o with OCapture _ _ => true | _ => false end.

Fixpoint contains_cap (o : op) : bool :=
  match o with
  | OChoice bs => existsb (fun b => is_capture b || contains_cap b) bs
  | OSeq os => existsb (fun b => is_capture b || contains_cap b) os
  | ORepeat o' _ _ _ | OGFixed o' _ _ _ | ORFixed o' _ _ _ | OUnamb o' _ _ => is_capture o' || contains_cap o'
  | _ => false
  end.

(* get_initial_character_class; only Atom, CharClass, Choice, Sequence and Repeat override the
   default (everything) *)
Fixpoint icc (case_blind : bool) (o : op) : cset :=
  match o with
  | OAtom cs =>
      match cs with
      | [] => empty
      | c :: _ => if case_blind then add_case_closure c (add_char c empty) else add_char c empty
      end
  | OCls s => s
  | OChoice bs => fold_left (fun acc b => union acc (icc case_blind b)) bs empty
  | OSeq os =>
      (fix go (l : list op) (acc : cset) : cset :=
         match l with
         | [] => acc
         | x :: t => let acc' := union acc (icc case_blind x) in
                     if mes x =? zls_never then acc' else go t acc'
         end) os empty
  | ORepeat o' _ _ _ => icc case_blind o'
  | _ => all
  end.

(* Operation::repeat_operation: child, min, max, greedy *)
Definition repeat_view (o : op) : option (op * N * N * bool) :=
  match o with
  | ORepeat c mn mx g => Some (c, mn, mx, g)
  | OGFixed c mn mx _ => Some (c, mn, mx, true)
  | ORFixed c mn mx _ => Some (c, mn, mx, false)
  | OUnamb c mn mx => Some (c, mn, mx, true)
  | _ => None
  end.

(* ReCompiler::no_ambiguity *)
Definition no_ambiguity (op0 op1 : op) (case_blind reluctant : bool) : bool :=
  match op1 with
  | OEnd => negb reluctant
  | OBol => false
  | OEol => negb (mem (icc case_blind op0) 10)
  | _ =>
      let can_be_empty := negb (mes op1 =? zls_never) in
      match repeat_view op1 with
      | Some (_, mn, _, _) =>
          if mn =? 0 then false
          else if can_be_empty then false
          else is_disjoint disjoint_threshold (icc case_blind op0) (icc case_blind op1)
      | None => if can_be_empty then false
                else is_disjoint disjoint_threshold (icc case_blind op0) (icc case_blind op1)
      end
  end.

Definition is_atom_or_cls (o : op) : bool :=
  match o with OAtom _ | OCls _ => true | _ => false end.

Fixpoint optimize (case_blind : bool) (o : op) : op :=
  match o with
  | OCapture g o' => OCapture g (optimize case_blind o')
  | OChoice bs => OChoice (map (optimize case_blind) bs)
  | OSeq os =>
      match os with
      | [] => ONothing
      | [x] => x
      | _ =>
          OSeq ((fix go (l : list op) : list op :=
                   match l with
                   | [] => []
                   | [x] => [optimize case_blind x]
                   | x :: ((nxt :: _) as t) =>
                       let ox := optimize case_blind x in
                       let r :=
                         match repeat_view ox with
                         | Some (c, mn, mx, g) =>
                             if is_atom_or_cls c then
                               if mn =? mx then OUnamb c mn mx
                               else if no_ambiguity c nxt case_blind (negb g) then OUnamb c mn mx
                               else ox
                             else ox
                         | None => ox
                         end in
                       r :: go t
                   end) os)
      end
  | ORepeat o' mn mx g =>
      let c := optimize case_blind o' in
      ORepeat c (if (mn =? 0) && g && (mes c =? zls_any) then 1 else mn) mx g
  | OGFixed o' mn mx len =>
      if mx =? 0 then ONothing
      else if opt_N_eqb (match_length o') (Some 0) then o'
      else OGFixed (optimize case_blind o') mn mx len
  | ORFixed o' mn mx len => ORFixed (optimize case_blind o') mn mx len
  | OUnamb o' mn mx => OUnamb (optimize case_blind o') mn mx
  | _ => o
  end.
