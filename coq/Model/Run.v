(* Drives the iterator models the way the Rust harness drives the real iterators (same caps), so
   that both sides print the same canonical result.  Used by extraction and by the in-Coq
   cross-check; not part of any theorem statement. *)
From RX Require Import Base.Prelude Base.InvList Model.Case Model.Op Model.Engine Model.Matcher Model.Compiler Model.Api.

Inductive tail := TDone | TInf | TPanic | TOut.

Fixpoint tok_run (prog : program) (input : list N) (fuel : nat) (cap count : nat) (st : tokst)
         (acc : list (list N)) : list (list N) * tail :=
  match fuel with
  | O => (rev acc, TOut)
  | S f =>
      match tok_next prog input st with
      | Ok (None, _) => (rev acc, TDone)
      | Ok (Some t, st') =>
          if Nat.ltb cap (S count) then (rev (t :: acc), TInf)
          else tok_run prog input f cap (S count) st' (t :: acc)
      | Out => (rev acc, TOut)
      | _ => (rev acc, TPanic)
      end
  end.

Definition run_tokenize (re : regex) (input : list N) : res (list (list N) * tail) :=
  st <- tokenize re input ;;
  let cap := length input + 3 in
  Ok (tok_run (r_prog re) input (cap + 3) cap 0 st []).

Fixpoint an_run (prog : program) (input : list N) (table : list (nat * nat)) (fuel : nat)
         (cap count : nat) (st : anst) (acc : list aentry) : list aentry * tail :=
  match fuel with
  | O => (rev acc, TOut)
  | S f =>
      match an_next prog input table st with
      | Ok (None, _) => (rev acc, TDone)
      | Ok (Some e, st') =>
          if Nat.ltb cap (S count) then (rev (e :: acc), TInf)
          else an_run prog input table f cap (S count) st' (e :: acc)
      | Out => (rev acc, TOut)
      | _ => (rev acc, TPanic)
      end
  end.

Definition run_analyze (re : regex) (input : list N) : res (list aentry * tail) :=
  '(table, st) <- analyze re ;;
  let cap := 2 * length input + 4 in
  Ok (an_run (r_prog re) input table (cap + 3) cap 0 st []).
