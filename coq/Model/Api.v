(* regex.rs (Regex::new, is_match, replace_all, tokenize, analyze), ReMatcher::replace
   (re_matcher.rs) and AnalyzeIter (analyze_string.rs). *)
From RX Require Import Base.Prelude Base.InvList Model.Case Model.Op Model.Engine Model.Matcher Model.Compiler.

Record regex := { r_prog : program; r_nullable : bool }.

Definition mres_bool (m : mres) : res (bool * mstate) :=
  match m with
  | MTrue s => Ok (true, s) | MFalse s => Ok (false, s) | MOut => Out | MPanic k => Panic k
  end.

(* Regex::new ; [unopt] selects the verification hook constructor *)
Definition regex_new (unopt xpath : bool) (pattern fls : list N) : res regex :=
  fl <- parse_flags xpath fls ;;
  prog <- compile unopt fl pattern ;;
  '(b, _) <- mres_bool (matches prog [] 0 st0) ;;
  Ok {| r_prog := prog; r_nullable := b |}.

Definition is_match (re : regex) (input : list N) : res bool :=
  '(b, _) <- mres_bool (matches (r_prog re) input 0 st0) ;; Ok b.

(* ---------------------------------------------------------------- capture accessors *)
Section Caps.
Variable input : list N.
Let n := length input.

Definition get_pstart (s : mstate) (g : nat) : option nat :=
  if Nat.ltb g (length (startn (cs_ s))) then nth g (startn (cs_ s)) None else None.
Definition get_pend (s : mstate) (g : nat) : option nat :=
  if Nat.ltb g (length (endn (cs_ s))) then nth g (endn (cs_ s)) None else None.
(* &search[a..b] : panics unless a <= b <= len *)
Definition rslice (a b : nat) : res (list N) :=
  if Nat.ltb b a || Nat.ltb n b then Panic 40 else Ok (slice input a b).
Definition get_paren (s : mstate) (g : nat) : res (option (list N)) :=
  if Nat.ltb g (pcount (cs_ s)) then
    match get_pstart s g, get_pend s g with
    | Some a, Some b => t <- rslice a b ;; Ok (Some t)
    | _, _ => Ok None
    end
  else Ok None.
End Caps.

(* ---------------------------------------------------------------- replacement expansion *)

Section Expand.
Variable r : list N.                           (* replacement string *)
Variable maxc : nat.                           (* max_capture = max_parens - 1 *)
Variable capf : nat -> res (option (list N)).  (* get_paren n for the current match *)
Let len := length r.

Definition push_cap (g : nat) (acc : list N) : res (list N) :=
  c <- capf g ;; Ok (match c with Some t => acc ++ t | None => acc end).

(* the digit loop for more than 9 groups: returns (i, n) as the Rust loop leaves them *)
Fixpoint digits_loop (fuel i g : nat) : option (nat * nat) :=
  match fuel with
  | O => None
  | S f =>
      let i := i + 1 in
      if Nat.leb len i then Some (i, g)
      else match nth_error r i with
           | None => None
           | Some c =>
               if is_digit c then
                 let m := g * 10 + dval c in
                 if Nat.ltb maxc m then Some (i - 1, g) else digits_loop f i m
               else Some (i - 1, g)
           end
  end.

(* returns the extended output and whether no '\' or '$' was seen (simple_replacement) *)
Fixpoint expand_loop (fuel i : nat) (acc : list N) (simple : bool) : res (list N * bool) :=
  match fuel with
  | O => Out
  | S f =>
      if Nat.leb len i then Ok (acc, simple)
      else match nth_error r i with
           | None => Panic 41
           | Some ch =>
               if N.eqb ch 92 then
                 let i := i + 1 in
                 if Nat.leb len i then Err EInvalidRepl
                 else match nth_error r i with
                      | None => Panic 41
                      | Some c2 => if N.eqb c2 92 || N.eqb c2 36
                                   then expand_loop f (i + 1) (acc ++ [c2]) false
                                   else Err EInvalidRepl
                      end
               else if N.eqb ch 36 then
                 let i := i + 1 in
                 if Nat.leb len i then Err EInvalidRepl
                 else match nth_error r i with
                      | None => Panic 41
                      | Some c2 =>
                          if negb (is_digit c2) then Err EInvalidRepl
                          else
                            let g := dval c2 in
                            if Nat.leb maxc 9 then
                              acc' <- (if Nat.leb g maxc then push_cap g acc else Ok acc) ;;
                              expand_loop f (i + 1) acc' false
                            else
                              match digits_loop (S len) i g with
                              | None => Out
                              | Some (i', g') => acc' <- push_cap g' acc ;; expand_loop f (i' + 1) acc' false
                              end
                      end
               else expand_loop f (i + 1) (acc ++ [ch]) simple
           end
  end.
Definition expand (acc : list N) : res (list N * bool) := expand_loop (S len) 0 acc true.
End Expand.

(* ---------------------------------------------------------------- ReMatcher::replace *)
Section Replace.
(* the scan loop is written over an abstract match function so that its theorems (Proofs/Scan*.v)
   need only the interface facts of ReMatcher::matches *)
Variable matchf : nat -> mstate -> mres.
Variable literal : bool.
Variable maxparens : nat.
Variable input repl : list N.
Let n := length input.

Definition finish (pos : nat) (result : list N) (first_match : bool) : res (list N) :=
  if first_match then Ok input
  else t <- rslice input pos n ;; Ok (result ++ t).

Fixpoint replace_loop (fuel pos : nat) (s : mstate) (result : list N)
         (first_match simple : bool) : res (list N) :=
  match fuel with
  | O => Out
  | S f =>
      if Nat.ltb pos n then
        '(b, s1) <- mres_bool (matchf pos s) ;;
        if b then
          r1 <- match get_pstart s1 0 with
                | Some start => t <- rslice input pos start ;; Ok (result ++ t)
                | None => Ok result
                end ;;
          let simple := if first_match then literal else simple in
          '(r2, simple') <- (if negb simple then
                               match maxparens with
                               | O => Panic 42           (* max_parens - 1 underflows *)
                               | S maxc => expand repl maxc (get_paren input s1) r1
                               end
                             else Ok (r1 ++ repl, simple)) ;;
          match get_pend s1 0 with
          | None => Panic 43
          | Some e => let newpos := if Nat.eqb e pos then S e else e in
                      replace_loop f newpos s1 r2 false simple'
          end
        else finish pos result first_match
      else finish pos result first_match
  end.

Definition replace_gen : res (list N) := replace_loop (n + 2) 0 st0 [] true false.
End Replace.

Definition replace (prog : program) (input repl : list N) : res (list N) :=
  replace_gen (matches prog input) (p_literal prog) (p_maxparens prog) input repl.

Definition replace_all (re : regex) (input repl : list N) : res (list N) :=
  if r_nullable re then Err EMatchesEmpty else replace (r_prog re) input repl.

(* ---------------------------------------------------------------- tokenize / TokenIter *)
Record tokst := { t_prev : option nat; t_ms : mstate }.

Definition tokenize (re : regex) (input : list N) : res tokst :=
  match input with
  | [] => Ok {| t_prev := None; t_ms := st0 |}
  | _ => if r_nullable re then Err EMatchesEmpty else Ok {| t_prev := Some 0; t_ms := st0 |}
  end.

Definition tok_next_gen (matchf : nat -> mstate -> mres) (input : list N) (st : tokst)
  : res (option (list N) * tokst) :=
  match t_prev st with
  | None => Ok (None, st)
  | Some pe =>
      '(b, s1) <- mres_bool (matchf pe (t_ms st)) ;;
      if b then
        match get_pstart s1 0 with
        | None => Panic 44
        | Some start =>
            cur <- rslice input pe start ;;
            Ok (Some cur, {| t_prev := get_pend s1 0; t_ms := s1 |})
        end
      else
        cur <- rslice input pe (length input) ;;
        Ok (Some cur, {| t_prev := None; t_ms := s1 |})
  end.
Definition tok_next (prog : program) (input : list N) := tok_next_gen (matches prog input) input.

(* ---------------------------------------------------------------- analyze / AnalyzeIter *)
Inductive mentry := MStr (s : list N) | MGrp (nr : nat) (v : list mentry).
Inductive aentry := AMatch (v : list mentry) | ANon (s : list N).

(* compute_nesting_table: group -> parent group, scanning the pattern text *)
Section Nesting.
Variable pattern : list N.
Let plen := length pattern.

Fixpoint nest_loop (fuel i : nat) (stack : list nat) (tos : nat) (cstack : list bool) (ctos : nat)
         (group : nat) (inb : Z) (table : list (nat * nat)) : res (list (nat * nat)) :=
  match fuel with
  | O => Out
  | S f =>
      if Nat.leb plen i then Ok table
      else match nth_error pattern i with
           | None => Panic 50
           | Some ch =>
               if N.eqb ch 92 then nest_loop f (i + 2) stack tos cstack ctos group inb table
               else if N.eqb ch 91 then nest_loop f (S i) stack tos cstack ctos group (inb + 1)%Z table
               else if N.eqb ch 93 then nest_loop f (S i) stack tos cstack ctos group (inb - 1)%Z table
               else if N.eqb ch 40 && Z.eqb inb 0 then
                 match nth_error pattern (i + 1) with
                 | None => Panic 51
                 | Some nx =>
                     let capture := negb (N.eqb nx 63) in
                     if Nat.leb plen ctos then Panic 52
                     else
                       let cstack' := upd cstack ctos capture in
                       if capture then
                         match tos with
                         | O => Panic 53
                         | S t1 =>
                             match nth_error stack t1 with
                             | None => Panic 53
                             | Some parent =>
                                 if Nat.leb plen tos then Panic 54
                                 else nest_loop f (S i) (upd stack tos group) (S tos) cstack' (S ctos)
                                                (S group) inb ((group, parent) :: table)
                             end
                         end
                       else nest_loop f (S i) stack tos cstack' (S ctos) group inb table
                 end
               else if N.eqb ch 41 && Z.eqb inb 0 then
                 match ctos with
                 | O => Panic 55
                 | S c1 =>
                     match nth_error cstack c1 with
                     | None => Panic 56
                     | Some capture =>
                         if capture then
                           match tos with
                           | O => Panic 57
                           | S t1 => nest_loop f (S i) stack t1 cstack c1 group inb table
                           end
                         else nest_loop f (S i) stack tos cstack c1 group inb table
                     end
                 end
               else nest_loop f (S i) stack tos cstack ctos group inb table
           end
  end.

Definition nesting_table : res (list (nat * nat)) :=
  nest_loop (plen + 2) 0 (repeat O plen) 1 (repeat false plen) 0 1 0%Z [].
End Nesting.

Fixpoint lookup_nat {B} (k : nat) (l : list (nat * B)) : option B :=
  match l with [] => None | (k', v) :: t => if Nat.eqb k k' then Some v else lookup_nat k t end.
Fixpoint update_nat {B} (k : nat) (v : B) (l : list (nat * B)) : list (nat * B) :=
  match l with
  | [] => [(k, v)]
  | (k', v') :: t => if Nat.eqb k k' then (k, v) :: t else (k', v') :: update_nat k v t
  end.

(* insert x into l at index pos (Vec::insert) *)
Fixpoint insert_at {A} (pos : nat) (x : A) (l : list A) : list A :=
  match pos, l with
  | O, _ => x :: l
  | S p, h :: t => h :: insert_at p x t
  | S _, [] => [x]
  end.
Fixpoint index_of (x : Z) (l : list Z) (i : nat) : option nat :=
  match l with [] => None | h :: t => if Z.eqb h x then Some i else index_of x t (S i) end.

Section Process.
Variable input : list N.
Variable table : list (nat * nat).
Variable s : mstate.                 (* matcher state after the match *)
Variable current : list N.

(* the events of groups 1..c, keyed by offset into [current] *)
Fixpoint build_actions (i : nat) (todo : nat) (actions : list (nat * list Z)) : res (list (nat * list Z)) :=
  match todo with
  | O => Ok actions
  | S todo' =>
      match get_pstart s i, get_pstart s 0 with
      | Some start_i, Some start_0 =>
          if Nat.ltb start_i start_0 then Panic 60
          else
            let start := start_i - start_0 in
            match get_pend s i with
            | None => Panic 61
            | Some end_i =>
                if Nat.ltb end_i start_0 then Panic 62
                else
                  let en := end_i - start_0 in
                  let zi := Z.of_nat i in
                  if Nat.ltb start en then
                    let a1 := update_nat start (match lookup_nat start actions with
                                                | Some v => v ++ [zi] | None => [zi] end) actions in
                    let a2 := update_nat en (match lookup_nat en a1 with
                                             | Some v => (- zi)%Z :: v | None => [(- zi)%Z] end) a1 in
                    build_actions (S i) todo' a2
                  else
                    match lookup_nat i table with
                    | None => Panic 63
                    | Some parent =>
                        let v' := match lookup_nat start actions with
                                  | Some v =>
                                      let pos := match index_of (- Z.of_nat parent)%Z v 0 with
                                                 | Some e => e | None => length v end in
                                      insert_at pos zi (insert_at pos (- zi)%Z v)
                                  | None => [zi; (- zi)%Z]
                                  end in
                        build_actions (S i) todo' (update_nat start v' actions)
                    end
            end
      | _, _ => build_actions (S i) todo' actions
      end
  end.

(* RegexMatchHandler: a stack of open groups, entries accumulated in reverse *)
Definition frame := (nat * list mentry)%type.

Definition push_top (e : mentry) (stack : list frame) : res (list frame) :=
  match stack with
  | [] => Panic 64
  | (nr, es) :: t => Ok ((nr, e :: es) :: t)
  end.

Fixpoint run_events (evs : list Z) (stack : list frame) : res (list frame) :=
  match evs with
  | [] => Ok stack
  | g :: t =>
      if Z.ltb 0 g then run_events t ((Z.to_nat g, []) :: stack)
      else match stack with
           | [] => Panic 65
           | (nr, es) :: rest =>
               st' <- push_top (MGrp nr (rev es)) rest ;;
               run_events t st'
           end
  end.

Fixpoint walk (fuel i : nat) (actions : list (nat * list Z)) (buf : option (list N))
         (stack : list frame) : res (list frame) :=
  match fuel with
  | O => Out
  | S f =>
      if Nat.ltb (length current) i then
        (* after the loop: flush the buffer *)
        match buf with Some b => push_top (MStr b) stack | None => Ok stack end
      else
        '(buf1, stack1) <- match lookup_nat i actions with
                           | Some evs =>
                               st1 <- match buf with Some b => push_top (MStr b) stack | None => Ok stack end ;;
                               st2 <- run_events evs st1 ;;
                               Ok (None, st2)
                           | None => Ok (buf, stack)
                           end ;;
        let buf2 := match nth_error current i with
                    | Some c => Some (match buf1 with Some b => b ++ [c] | None => [c] end)
                    | None => buf1
                    end in
        walk f (S i) actions buf2 stack1
  end.

Definition process_matching_substring : res (list mentry) :=
  match pcount (cs_ s) with
  | O => Panic 66                      (* paren_count() - 1 underflows *)
  | S c =>
      match c with
      | O => Ok [MStr current]
      | _ =>
          actions <- build_actions 1 c [] ;;
          stack <- walk (length current + 2) 0 actions None [(O, [])] ;;
          match stack with
          | [] => Panic 67
          | (_, es) :: _ => Ok (rev es)
          end
      end
  end.
End Process.

Record anst := { a_next : option (list N); a_prev : option nat; a_skip : bool; a_ms : mstate }.

Definition analyze (re : regex) : res (list (nat * nat) * anst) :=
  if r_nullable re then Err EMatchesEmpty
  else
    table <- nesting_table (if p_literal (r_prog re) then [] else p_pattern (r_prog re)) ;;
    Ok (table, {| a_next := None; a_prev := Some 0; a_skip := false; a_ms := st0 |}).

Section AnalyzeNext.
Variable matchf : nat -> mstate -> mres.
(* process_matching_substring with the nesting table fixed; abstract so that the theorems about the
   iterator (Proofs/AnalyzeIterFacts.v) need only what they use of it *)
Variable proc : mstate -> list N -> res (list mentry).
Variable input : list N.
Let n := length input.

(* analyze_entry, evaluated with the iterator fields as already updated *)
Definition analyze_entry (next_sub : option (list N)) (prev : option nat) (s : mstate)
           (current : list N) : res aentry :=
  match next_sub, prev with
  | None, Some _ => v <- proc s current ;; Ok (AMatch v)
  | _, _ => Ok (ANon current)
  end.

Definition an_next_gen (st : anst) : res (option aentry * anst) :=
  match a_prev st with
  | None => Ok (None, st)
  | Some prev_end =>
      match a_next st with
      | Some sub =>
          let prev' := get_pend (a_ms st) 0 in
          e <- analyze_entry None prev' (a_ms st) sub ;;
          Ok (Some e, {| a_next := None; a_prev := prev'; a_skip := a_skip st; a_ms := a_ms st |})
      | None =>
          let search_start := if a_skip st then S prev_end else prev_end in
          if a_skip st && Nat.leb n search_start && negb (Nat.ltb prev_end n) then
            Ok (None, {| a_next := None; a_prev := None; a_skip := a_skip st; a_ms := a_ms st |})
          else
            '(b, s1) <- mres_bool (matchf search_start (a_ms st)) ;;
            if b then
              match get_pstart s1 0, get_pend s1 0 with
              | Some start, Some en =>
                  let skip' := Nat.eqb start en in
                  if Nat.eqb prev_end start then
                    cur <- rslice input start en ;;
                    e <- analyze_entry None (Some en) s1 cur ;;
                    Ok (Some e, {| a_next := None; a_prev := Some en; a_skip := skip'; a_ms := s1 |})
                  else
                    nxt <- rslice input start en ;;
                    cur <- rslice input prev_end start ;;
                    e <- analyze_entry (Some nxt) (Some prev_end) s1 cur ;;
                    Ok (Some e, {| a_next := Some nxt; a_prev := Some prev_end; a_skip := skip'; a_ms := s1 |})
              | _, _ => Panic 70
              end
            else if Nat.ltb prev_end n then
              cur <- rslice input prev_end n ;;
              Ok (Some (ANon cur), {| a_next := None; a_prev := None; a_skip := a_skip st; a_ms := s1 |})
            else Ok (None, {| a_next := None; a_prev := None; a_skip := a_skip st; a_ms := s1 |})
      end
  end.
End AnalyzeNext.
Definition an_next (prog : program) (input : list N) (table : list (nat * nat)) :=
  an_next_gen (matches prog input) (process_matching_substring table) input.
