(* re_flags.rs and re_compiler.rs: index-based mirror of the recursive-descent compiler.
   Every loop / recursion of the Rust code runs on the single fuel [8*len+16]; [Out] = exhausted. *)
From RX Require Import Base.Prelude Base.InvList.
From RX Require Import Tables.Consts Tables.Category Tables.BlocksRs Tables.FlagArms Tables.EscapeArms.
From RX Require Import Model.Case Model.Op Model.Matcher.
Local Open Scope N_scope.

(* ---------------------------------------------------------------- ReFlags::new *)
Record flags := { f_case : bool; f_multi : bool; f_single : bool; f_ws : bool; f_literal : bool;
                  f_xpath : bool }.

Definition set_field (fl : flags) (f : flagfield) : flags :=
  match f with
  | FCase => {| f_case := true; f_multi := f_multi fl; f_single := f_single fl; f_ws := f_ws fl;
                f_literal := f_literal fl; f_xpath := f_xpath fl |}
  | FMulti => {| f_case := f_case fl; f_multi := true; f_single := f_single fl; f_ws := f_ws fl;
                 f_literal := f_literal fl; f_xpath := f_xpath fl |}
  | FSingle => {| f_case := f_case fl; f_multi := f_multi fl; f_single := true; f_ws := f_ws fl;
                  f_literal := f_literal fl; f_xpath := f_xpath fl |}
  | FWhitespace => {| f_case := f_case fl; f_multi := f_multi fl; f_single := f_single fl; f_ws := true;
                      f_literal := f_literal fl; f_xpath := f_xpath fl |}
  | FLiteral => {| f_case := f_case fl; f_multi := f_multi fl; f_single := f_single fl; f_ws := f_ws fl;
                   f_literal := true; f_xpath := f_xpath fl |}
  end.

Definition is_literal_field (f : flagfield) : bool := match f with FLiteral => true | _ => false end.

Fixpoint assoc {B} (k : N) (l : list (N * B)) : option B :=
  match l with [] => None | (k', v) :: t => if k =? k' then Some v else assoc k t end.

Fixpoint flags_ext (l : list N) (fl : flags) : res flags :=
  match l with
  | [] => Ok fl
  | c :: t => if existsb (N.eqb c) ext_flag_letters then flags_ext t fl else Err EInvalidFlags
  end.
Fixpoint flags_main (l : list N) (fl : flags) : res flags :=
  match l with
  | [] => Ok fl
  | c :: t =>
      if c =? flag_separator then flags_ext t fl
      else match assoc c main_flag_arms with
           | Some f =>
               if is_literal_field f && q_requires_xpath && negb (f_xpath fl) then Err EInvalidFlags
               else flags_main t (set_field fl f)
           | None => Err EInvalidFlags
           end
  end.
Definition parse_flags (xpath : bool) (fs : list N) : res flags :=
  flags_main fs {| f_case := false; f_multi := false; f_single := false; f_ws := false;
                   f_literal := false; f_xpath := xpath |}.

(* ---------------------------------------------------------------- category.rs lookups *)
Fixpoint assoc_str {B} (k : list N) (l : list (list N * B)) : option B :=
  match l with [] => None | (k', v) :: t => if list_eqb N.eqb k k' then Some v else assoc_str k t end.

Definition category_group (name : list N) : option cset := assoc_str name category_arms.

Definition normalise_block_name (nm : list N) : list N :=
  filter (fun c => negb (existsb (N.eqb c) block_name_removed)) nm.
(* HashMap built by inserting ALL_BLOCKS in order: the last entry with a given key wins *)
Definition block_lookup (name : list N) : option (N * N) :=
  fold_left (fun acc b => let '(nm, lo, hi) := b in
                          if list_eqb N.eqb (normalise_block_name nm) name then Some (lo, hi) else acc)
            blocks_rs None.
Definition block_set (name : list N) : option cset :=
  if list_eqb N.eqb name block_special_name then Some block_special_set
  else match block_lookup name with
       | Some (lo, hi) => Some (add_range lo hi empty)
       | None => None
       end.

(* ---------------------------------------------------------------- the compiler proper *)
Record cst := { idx : nat; parens : nat; bmin : N; bmax : N; captures : list nat; hasbr : bool }.

Definition set_idx (i : nat) (st : cst) : cst :=
  {| idx := i; parens := parens st; bmin := bmin st; bmax := bmax st; captures := captures st;
     hasbr := hasbr st |}.
Definition adv (k : nat) (st : cst) : cst := set_idx (idx st + k) st.

Inductive esc := EChar (c : N) | ESet (s : cset) | EBackref (g : nat).

Definition c_bslash := 92. Definition c_lbrack := 91. Definition c_rbrack := 93.
Definition c_lparen := 40. Definition c_rparen := 41. Definition c_lbrace := 123.
Definition c_rbrace := 125. Definition c_bar := 124. Definition c_dot := 46. Definition c_minus := 45.
Definition c_caret := 94. Definition c_dollar := 36. Definition c_qmark := 63. Definition c_star := 42.
Definition c_plus := 43. Definition c_comma := 44. Definition c_colon := 58.

Definition is_quant (c : N) : bool := (c =? c_lbrace) || (c =? c_qmark) || (c =? c_star) || (c =? c_plus).

Section Compiler.
Variable pat : list N.
(* the three flags the parser itself reads (flag x and q are consumed by compile, m by the matcher) *)
Variable xpath case_i single : bool.
Let len := length pat.

Definition at_ (i : nat) : option N := nth_error pat i.
Definition is_at (i : nat) (c : N) : bool := match at_ i with Some x => x =? c | None => false end.
Definition there_follows (s : list N) (st : cst) : bool :=
  if Nat.ltb len (idx st + length s) then false else starts_with N.eqb s (skipn (idx st) pat).

(* digits from idx: value and new index; the loop of bracket() plus parse::<usize>() *)
Fixpoint digits (fuel i : nat) (acc : N) : nat * N :=
  match fuel with
  | O => (i, acc)
  | S f => match at_ i with
           | Some c => if is_digit c then digits f (S i) (acc * 10 + (c - 48)) else (i, acc)
           | None => (i, acc)
           end
  end.

Definition bracket (st : cst) : res cst :=
  if Nat.leb len (idx st) then Err EInternal
  else if negb (is_at (idx st) c_lbrace) then Err EInternal
  else
    let i := S (idx st) in
    if Nat.leb len i || negb (match at_ i with Some c => is_digit c | None => false end) then Err ESyntax
    else
      let '(i, mn) := digits len i 0 in
      if umax <? mn then Err ESyntax
      else if Nat.leb len i then Err ESyntax
      else if is_at i c_rbrace then
        Ok {| idx := S i; parens := parens st; bmin := mn; bmax := mn; captures := captures st; hasbr := hasbr st |}
      else if negb (is_at i c_comma) then Err ESyntax
      else
        let i := S i in
        if Nat.leb len i then Err ESyntax
        else if is_at i c_rbrace then
          Ok {| idx := S i; parens := parens st; bmin := mn; bmax := umax; captures := captures st; hasbr := hasbr st |}
        else if negb (match at_ i with Some c => is_digit c | None => false end) then Err ESyntax
        else
          let '(i, mx) := digits len i 0 in
          if umax <? mx then Err ESyntax
          else if mx <? mn then Err ESyntax
          else if Nat.leb len i || negb (is_at i c_rbrace) then Err ESyntax
          else Ok {| idx := S i; parens := parens st; bmin := mn; bmax := mx; captures := captures st; hasbr := hasbr st |}.

Fixpoint find_from (fuel i : nat) (c : N) : option nat :=
  match fuel with
  | O => None
  | S f => match at_ i with
           | Some x => if x =? c then Some i else find_from f (S i) c
           | None => None
           end
  end.

(* back-reference digits: the longest number not exceeding the groups opened so far *)
Fixpoint backref_digits (fuel i : nat) (br : N) (limit : N) : nat * N :=
  match fuel with
  | O => (i, br)
  | S f => match at_ i with
           | Some c => if is_digit c then
                         let br2 := br * 10 + (c - 48) in
                         if limit <? br2 then (i, br) else backref_digits f (S i) br2 limit
                       else (i, br)
           | None => (i, br)
           end
  end.

Definition s_set : cset := of_chars [9; 10; 13; 32].

Definition escape (in_sq : bool) (st : cst) : res (esc * cst) :=
  match at_ (idx st) with
  | None => Panic 30
  | Some c0 =>
      if negb (c0 =? c_bslash) then Err EInternal
      else if Nat.leb len (idx st + 1) then Err ESyntax
      else
        match at_ (idx st + 1) with
        | None => Panic 31
        | Some e =>
            let st2 := adv 2 st in
            let ok x := Ok (x, st2) in
            if e =? 110 then ok (EChar 10)
            else if e =? 114 then ok (EChar 13)
            else if e =? 116 then ok (EChar 9)
            else if existsb (N.eqb e) single_escapes then ok (EChar e)
            else if e =? c_dollar then (if xpath then ok (EChar c_dollar) else Err ESyntax)
            else if e =? 115 then ok (ESet s_set)
            else if e =? 83 then ok (ESet (compl s_set))
            else if e =? 105 then ok (ESet name_start_char_set)
            else if e =? 73 then ok (ESet (compl name_start_char_set))
            else if e =? 99 then ok (ESet name_char_set)
            else if e =? 67 then ok (ESet (compl name_char_set))
            else if e =? 100 then ok (ESet decimal_number_set)
            else if e =? 68 then ok (ESet (compl decimal_number_set))
            else if e =? 119 then ok (ESet word_char_set)
            else if e =? 87 then ok (ESet (compl word_char_set))
            else if (e =? 112) || (e =? 80) then
              let i := idx st2 in
              if Nat.eqb i len then Err ESyntax
              else if negb (is_at i c_lbrace) then Err ESyntax
              else
                let from := S i in
                match find_from len from c_rbrace with
                | None => Err ESyntax
                | Some close =>
                    let block := slice pat from close in
                    let finish (s : cset) :=
                      Ok (ESet (if e =? 112 then s else compl s), set_idx (S close) st2) in
                    if Nat.eqb (length block) 1 || Nat.eqb (length block) 2 then
                      match category_group block with
                      | Some s => finish s
                      | None => Err ESyntax
                      end
                    else if starts_with N.eqb [73; 115] block then
                      match block_set (skipn 2 block) with
                      | Some s => finish s
                      | None => Err ESyntax
                      end
                    else Err ESyntax
                end
            else if e =? 48 then Err ESyntax
            else if (49 <=? e) && (e <=? 57) then
              if in_sq then Err ESyntax
              else if negb (xpath) then Err ESyntax
              else
                let '(i, br) := backref_digits len (idx st2) (e - 48) (N.of_nat (parens st - 1)) in
                let g := N.to_nat br in
                if negb (existsb (Nat.eqb g) (captures st)) then Err ESyntax
                else Ok (EBackref g,
                         {| idx := i; parens := parens st; bmin := bmin st; bmax := bmax st;
                            captures := captures st; hasbr := true |})
            else Err ESyntax
        end
  end.

(* state of the loop in parse_character_class *)
Record ccst := { cc_pos : bool; cc_defrange : bool; cc_rstart : option N;
                 cc_builder : cset; cc_addend : option cset; cc_sub : option cset }.

Definition add_simple (c : option N) (b : cset) : cset :=
  match c with
  | Some ch => let b1 := add_char ch b in if case_i then add_case_closure ch b1 else b1
  | None => b
  end.

Fixpoint parse_cc (fuel : nat) (st : cst) : res (cset * cst) :=
  match fuel with
  | O => Out
  | S f =>
      if negb (is_at (idx st) c_lbrack) then (match at_ (idx st) with None => Panic 32 | _ => Err EInternal end)
      else
        let st := adv 1 st in
        if Nat.leb len (idx st + 1) || is_at (idx st) c_rbrack then Err ESyntax
        else
          let start :=
            if there_follows [c_caret] st then
              if there_follows [c_caret; c_minus; c_lbrack] st then Err ESyntax
              else if there_follows [c_caret; c_rbrack] st then Err ESyntax
              else Ok (false, adv 1 st)
            else if there_follows [c_minus; c_lbrack] st then Err ESyntax
            else Ok (true, st) in
          '(positive, st) <- start ;;
          '(cc, st) <- cc_loop f st {| cc_pos := positive; cc_defrange := false; cc_rstart := None;
                                       cc_builder := empty; cc_addend := None; cc_sub := None |} ;;
          if Nat.eqb (idx st) len then Err ESyntax
          else
            let r := cc_builder cc in
            let r := match cc_addend cc with Some a => union r a | None => r end in
            let r := if cc_pos cc then r else compl r in
            let r := match cc_sub cc with Some sb => diff r sb | None => r end in
            Ok (r, adv 1 st)
  end
with cc_loop (fuel : nat) (st : cst) (cc : ccst) : res (ccst * cst) :=
  match fuel with
  | O => Out
  | S f =>
      match at_ (idx st) with
      | None => Ok (cc, st)
      | Some ch =>
          if ch =? c_rbrack then Ok (cc, st)
          else
            (* the second part of the loop body: "handle simple character" *)
            let handle (simple : option N) (st : cst) (cc : ccst) : res (ccst * cst) :=
              if cc_defrange cc then
                match cc_rstart cc, simple with
                | Some s, Some e =>
                    if e <? s then Err ESyntax
                    else
                      let b := add_range s e (cc_builder cc) in
                      let b := if case_i then add_case_closure_range s e b else b in
                      cc_loop f st {| cc_pos := cc_pos cc; cc_defrange := false; cc_rstart := None;
                                      cc_builder := b; cc_addend := cc_addend cc; cc_sub := cc_sub cc |}
                | _, _ => cc_loop f st cc
                end
              else if there_follows [c_minus] st then
                if there_follows [c_minus; c_lbrack] st || there_follows [c_minus; c_rbrack] st
                   || there_follows [c_minus; c_minus; c_lbrack] st then
                  cc_loop f st {| cc_pos := cc_pos cc; cc_defrange := cc_defrange cc; cc_rstart := cc_rstart cc;
                                  cc_builder := add_simple simple (cc_builder cc);
                                  cc_addend := cc_addend cc; cc_sub := cc_sub cc |}
                else if there_follows [c_minus; c_minus] st then Err ESyntax
                else cc_loop f st {| cc_pos := cc_pos cc; cc_defrange := cc_defrange cc; cc_rstart := simple;
                                     cc_builder := cc_builder cc; cc_addend := cc_addend cc; cc_sub := cc_sub cc |}
              else
                cc_loop f st {| cc_pos := cc_pos cc; cc_defrange := cc_defrange cc; cc_rstart := cc_rstart cc;
                                cc_builder := add_simple simple (cc_builder cc);
                                cc_addend := cc_addend cc; cc_sub := cc_sub cc |} in
            if ch =? c_lbrack then Err ESyntax
            else if ch =? c_bslash then
              '(e, st') <- escape true st ;;
              match e with
              | EChar c => handle (Some c) st' cc
              | ESet b =>
                  if cc_defrange cc then Err ESyntax
                  else cc_loop f st' {| cc_pos := cc_pos cc; cc_defrange := cc_defrange cc;
                                        cc_rstart := cc_rstart cc; cc_builder := cc_builder cc;
                                        cc_addend := Some (match cc_addend cc with
                                                           | Some a => union a b | None => b end);
                                        cc_sub := cc_sub cc |}
              | EBackref _ => Panic 33
              end
            else if ch =? c_minus then
              if there_follows [c_minus; c_lbrack] st then
                '(sub, st') <- parse_cc f (adv 1 st) ;;
                if negb (there_follows [c_rbrack] st') then Err ESyntax
                else handle None st' {| cc_pos := cc_pos cc; cc_defrange := cc_defrange cc;
                                        cc_rstart := cc_rstart cc; cc_builder := cc_builder cc;
                                        cc_addend := cc_addend cc; cc_sub := Some sub |}
              else if there_follows [c_minus; c_rbrack] st then handle (Some c_minus) (adv 1 st) cc
              else if match cc_rstart cc with Some _ => true | None => false end then
                cc_loop f (adv 1 st) {| cc_pos := cc_pos cc; cc_defrange := true; cc_rstart := cc_rstart cc;
                                        cc_builder := cc_builder cc; cc_addend := cc_addend cc;
                                        cc_sub := cc_sub cc |}
              else if cc_defrange cc then Err ESyntax
              else if there_follows [c_minus; c_minus] st
                      && negb (there_follows [c_minus; c_minus; c_lbrack] st) then Err ESyntax
              else handle (Some c_minus) (adv 1 st) cc
            else handle (Some ch) (adv 1 st) cc
      end
  end.

Definition dot_set : cset := compl (add_char 13 (add_char 10 empty)).

(* parse_atom's loop; ub is accumulated in reverse *)
Fixpoint atom_loop (fuel : nat) (st : cst) (ub : list N) : res (list N * cst) :=
  match fuel with
  | O => Out
  | S f =>
      if Nat.leb len (idx st) then Ok (ub, st)
      else
        (* look-ahead at the character after the current one (past a whole escape) *)
        let look : res (option N * cst) :=
          if Nat.ltb (idx st + 1) len then
            match at_ (idx st + 1) with
            | None => Panic 34
            | Some c =>
                if is_at (idx st) c_bslash then
                  '(_, st') <- escape false st ;;
                  let c := if Nat.ltb (idx st') len then match at_ (idx st') with Some x => x | None => c end
                           else c in
                  (* only idx is restored: a back-reference seen here already set the flag *)
                  Ok (Some c, {| idx := idx st; parens := parens st'; bmin := bmin st'; bmax := bmax st';
                                 captures := captures st'; hasbr := hasbr st' |})
                else Ok (Some c, st)
            end
          else Ok (None, st) in
        '(la, st) <- look ;;
        if match la with Some c => is_quant c && negb (match ub with [] => true | _ => false end)
                    | None => false end
        then Ok (ub, st)
        else
          match at_ (idx st) with
          | None => Panic 35
          | Some ch =>
              if (ch =? c_rbrack) || (ch =? c_dot) || (ch =? c_lbrack) || (ch =? c_lparen)
                 || (ch =? c_rparen) || (ch =? c_bar) then Ok (ub, st)
              else if is_quant ch then
                match ub with [] => Err ESyntax | _ => Ok (ub, st) end
              else if ch =? c_rbrace then Err ESyntax
              else if ch =? c_bslash then
                '(e, st') <- escape false st ;;
                match e with
                | EChar c => atom_loop f st' (c :: ub)
                | _ => Ok (ub, {| idx := idx st; parens := parens st'; bmin := bmin st'; bmax := bmax st';
                                  captures := captures st'; hasbr := hasbr st' |})
                end
              else if ((ch =? c_caret) || (ch =? c_dollar)) && xpath then Ok (ub, st)
              else atom_loop f (adv 1 st) (ch :: ub)
          end
  end.

Definition parse_atom (st : cst) : res (op * cst) :=
  '(ub, st') <- atom_loop (len + 2) st [] ;;
  match ub with
  | [] => Err EInternal
  | _ => Ok (OAtom (rev ub), st')
  end.

(* ReCompiler::make_sequence *)
Definition make_sequence (o1 o2 : op) : op :=
  match o1, o2 with
  | OSeq l1, OSeq l2 => OSeq (l1 ++ l2)
  | OSeq l1, _ => OSeq (l1 ++ [o2])
  | _, OSeq l2 => OSeq (o1 :: l2)
  | _, _ => OSeq [o1; o2]
  end.

Definition is_bol_eol (o : op) : bool := match o with OBol | OEol => true | _ => false end.

(* the quantifier part of piece(), after the terminal [ret] has been parsed *)
Definition quantify (ret : op) (st : cst) : res (op * cst) :=
  if Nat.leb len (idx st) then Ok (ret, st)
  else
    match at_ (idx st) with
    | None => Panic 36
    | Some qt =>
        let hq : res (bool * cst) :=
          if (qt =? c_qmark) || (qt =? c_star) || (qt =? c_plus) then Ok (true, adv 1 st)
          else if qt =? c_lbrace then (st' <- bracket st ;; Ok (true, st'))
          else Ok (false, st) in
        '(has_q, st) <- hq ;;
        (* Some qt / None, possibly an early return *)
        let early : res (option (op * cst) * option N * cst) :=
          if has_q then
            let step1 : option (op * cst) * option N * cst :=
              if is_bol_eol ret then
                if (qt =? c_qmark) || (qt =? c_star) || ((qt =? c_lbrace) && (bmin st =? 0)) then
                  let st' := if is_at (idx st) c_qmark then adv 1 st else st in
                  (Some (ONothing, st'), Some qt, st)
                else (None, None, st)
              else (None, Some qt, st) in
            let '(ret_now, q, st) := step1 in
            match ret_now with
            | Some _ => Ok (ret_now, q, st)
            | None =>
                if mes ret =? zls_any then
                  match q with
                  | Some c =>
                      if c =? c_qmark then Ok (None, None, st)
                      else if c =? c_plus then Ok (None, Some c_star, st)
                      else if c =? c_lbrace then
                        Ok (None, q, {| idx := idx st; parens := parens st; bmin := 0; bmax := bmax st;
                                        captures := captures st; hasbr := hasbr st |})
                      else Ok (None, q, st)
                  | None => Ok (None, q, st)
                  end
                else Ok (None, q, st)
            end
          else Ok (None, Some qt, st) in
        '(ret_now, q, st) <- early ;;
        match ret_now with
        | Some r => Ok r
        | None =>
            let gr : res (bool * cst) :=
              if Nat.ltb (idx st) len && is_at (idx st) c_qmark then
                if negb (xpath) then Err ESyntax else Ok (false, adv 1 st)
              else Ok (true, st) in
            '(greedy, st) <- gr ;;
            let '(mn, mx) :=
              match q with
              | Some c =>
                  if c =? c_lbrace then (bmin st, bmax st)
                  else if c =? c_qmark then (0, 1)
                  else if c =? c_plus then (1, umax)
                  else if c =? c_star then (0, umax)
                  else (1, 1)
              | None => (1, 1)
              end in
            if mx =? 0 then Ok (ONothing, st)
            else if (mn =? 1) && (mx =? 1) then Ok (ret, st)
            else if opt_N_eqb (match_length ret) (Some 0) then
              Ok (if mn =? 0 then ONothing else ret, st)
            else if greedy then
              match match_length ret with
              | Some ml => if 0 <? ml then Ok (OGFixed ret mn mx ml, st) else Ok (ONothing, st)
              | None => Ok (ORepeat ret mn mx true, st)
              end
            else
              match match_length ret with
              | Some ml => Ok (ORFixed ret mn mx ml, st)
              | None => Ok (ORepeat ret mn mx false, st)
              end
        end
    end.

Fixpoint parse_expr (fuel : nat) (toplevel : bool) (st : cst) : res (op * cst) :=
  match fuel with
  | O => Out
  | S f =>
      let close_parens := parens st in
      let opening : res (option bool * nat * cst) :=      (* paren kind (capturing?), group, state *)
        if negb toplevel then
          match at_ (idx st) with
          | None => Panic 37
          | Some c =>
              if c =? c_lparen then
                if Nat.ltb (idx st + 2) len && is_at (idx st + 1) c_qmark && is_at (idx st + 2) c_colon then
                  if negb (xpath) then Err ESyntax else Ok (Some false, O, adv 3 st)
                else
                  Ok (Some true, parens st,
                      {| idx := S (idx st); parens := S (parens st); bmin := bmin st; bmax := bmax st;
                         captures := captures st; hasbr := hasbr st |})
              else Ok (None, O, st)
          end
        else Ok (None, O, st) in
      '(paren, group, st) <- opening ;;
      '(b, st) <- parse_branch f st ;;
      '(branches, st) <- branches_loop f st [b] ;;
      let o := match branches with [x] => x | _ => OChoice (rev branches) end in
      match paren with
      | Some capturing =>
          if Nat.ltb (idx st) len && is_at (idx st) c_rparen then
            let st := adv 1 st in
            if capturing then
              Ok (OCapture group o,
                  {| idx := idx st; parens := parens st; bmin := bmin st; bmax := bmax st;
                     captures := close_parens :: captures st; hasbr := hasbr st |})
            else Ok (o, st)
          else Err ESyntax
      | None => Ok (make_sequence o OEnd, st)
      end
  end
with branches_loop (fuel : nat) (st : cst) (acc : list op) : res (list op * cst) :=
  match fuel with
  | O => Out
  | S f =>
      if Nat.ltb (idx st) len && is_at (idx st) c_bar then
        '(b, st') <- parse_branch f (adv 1 st) ;;
        branches_loop f st' (b :: acc)
      else Ok (acc, st)
  end
with parse_branch (fuel : nat) (st : cst) : res (op * cst) :=
  match fuel with
  | O => Out
  | S f =>
      '(cur, st') <- branch_loop f st None ;;
      Ok (match cur with Some c => c | None => ONothing end, st')
  end
with branch_loop (fuel : nat) (st : cst) (cur : option op) : res (option op * cst) :=
  match fuel with
  | O => Out
  | S f =>
      if Nat.ltb (idx st) len && negb (is_at (idx st) c_bar) && negb (is_at (idx st) c_rparen) then
        '(o, st') <- piece f st ;;
        branch_loop f st' (Some (match cur with Some c => make_sequence c o | None => o end))
      else Ok (cur, st)
  end
with piece (fuel : nat) (st : cst) : res (op * cst) :=
  match fuel with
  | O => Out
  | S f =>
      '(ret, st') <- parse_terminal f st ;;
      quantify ret st'
  end
with parse_terminal (fuel : nat) (st : cst) : res (op * cst) :=
  match fuel with
  | O => Out
  | S f =>
      match at_ (idx st) with
      | None => Panic 38
      | Some c =>
          if (c =? c_dollar) && xpath then Ok (OEol, adv 1 st)
          else if (c =? c_caret) && xpath then Ok (OBol, adv 1 st)
          else if c =? c_dot then Ok (OCls (if single then all else dot_set), adv 1 st)
          else if c =? c_lbrack then ('(s, st') <- parse_cc (len + len + 4) st ;; Ok (OCls s, st'))
          else if c =? c_lparen then parse_expr f false st
          else if c =? c_rparen then Err ESyntax
          else if c =? c_bar then Err EInternal
          else if c =? c_rbrack then Err ESyntax
          else if is_quant c then Err ESyntax
          else if c =? c_bslash then
            '(e, st') <- escape false st ;;
            match e with
            | EBackref g => if Nat.leb (parens st') g then Err ESyntax else Ok (OBackref g, st')
            | EChar _ => parse_atom {| idx := idx st; parens := parens st'; bmin := bmin st'; bmax := bmax st';
                                       captures := captures st'; hasbr := hasbr st' |}
            | ESet s => Ok (OCls s, st')
            end
          else parse_atom st
      end
  end.

End Compiler.

(* the 'x' pre-pass of compile(): strip whitespace outside square brackets *)
Definition is_x_ws (c : N) : bool := (c =? 9) || (c =? 10) || (c =? 13) || (c =? 32).
Fixpoint strip_ws (l : list N) (nesting : Z) (escaped : bool) : list N :=
  match l with
  | [] => []
  | ch :: t =>
      if (ch =? c_bslash) && negb escaped then ch :: strip_ws t nesting true
      else if (ch =? c_lbrack) && negb escaped then ch :: strip_ws t (nesting + 1)%Z escaped
      else if (ch =? c_rbrack) && negb escaped then ch :: strip_ws t (nesting - 1)%Z escaped
      else if (nesting =? 0)%Z && is_x_ws ch then strip_ws t nesting escaped
      else ch :: strip_ws t nesting false
  end.

Definition st_init : cst := {| idx := 0; parens := 1; bmin := 0; bmax := 0; captures := []; hasbr := false |}.

(* ReCompiler::compile; [unopt] = the verification hook *)
Definition compile (unopt : bool) (fl : flags) (pattern : list N) : res program :=
  let mk := if unopt then mk_program_unopt else mk_program in
  if f_literal fl then
    Ok (mk pattern (make_sequence (OAtom pattern) OEnd) 1%nat (f_case fl) (f_multi fl) true false)
  else
    let pat := if f_ws fl then strip_ws pattern 0%Z false else pattern in
    '(o, st) <- parse_expr pat (f_xpath fl) (f_case fl) (f_single fl) (8 * length pat + 16) true st_init ;;
    if negb (Nat.eqb (idx st) (length pat)) then Err ESyntax
    else
      let o' := if unopt then o else optimize (f_case fl) o in
      Ok (mk pat o' (parens st) (f_case fl) (f_multi fl) false (hasbr st)).
