(* C18: API objects as handles in a world; a history is a list of operations.  The Rust objects
   modelled: Regex (immutable after construction), TokenIter and AnalyzeIter (each owns its own
   ReMatcher, i.e. its own scratch state: capture arrays, back-reference arrays, History).  The
   shared-state inventory of the crate is one init-once table (BLOCK_LOOKUP), a constant here. *)
From RX Require Import Base.Prelude Model.Engine Model.Matcher Model.Compiler Model.Api.

Inductive obj :=
| ORegex (re : regex)
| OTok (re : regex) (input : list N) (st : tokst)
| OAn (re : regex) (input : list N) (table : list (nat * nat)) (st : anst)
| ODropped.

Definition world := list obj.          (* handle = index; handles are never reused *)

Inductive wop :=
| WCompile (xpath : bool) (pattern flags : list N)
| WIsMatch (h : nat) (input : list N)
| WReplace (h : nat) (input repl : list N)
| WTokenize (h : nat) (input : list N)
| WAnalyze (h : nat) (input : list N)
| WNext (h : nat)
| WDrop (h : nat).

Inductive wout :=
| RNew (h : nat) | RErr (e : errkind) | RPanic | ROut
| RBool (b : bool) | RText (t : list N) | RTok (t : option (list N)) | REntry (e : option aentry)
| RBadHandle | RUnit.

Definition of_res {A} (f : A -> wout) (r : res A) : wout :=
  match r with Ok a => f a | Err e => RErr e | Panic _ => RPanic | Out => ROut end.

Definition get_regex (w : world) (h : nat) : option regex :=
  match nth_error w h with Some (ORegex re) => Some re | _ => None end.

Definition step (w : world) (o : wop) : world * wout :=
  match o with
  | WCompile xpath p f =>
      match regex_new false xpath p f with
      | Ok re => (w ++ [ORegex re], RNew (length w))
      | Err e => (w, RErr e) | Panic _ => (w, RPanic) | Out => (w, ROut)
      end
  | WIsMatch h s =>
      match get_regex w h with
      | Some re => (w, of_res RBool (is_match re s))
      | None => (w, RBadHandle)
      end
  | WReplace h s r =>
      match get_regex w h with
      | Some re => (w, of_res RText (replace_all re s r))
      | None => (w, RBadHandle)
      end
  | WTokenize h s =>
      match get_regex w h with
      | Some re => match tokenize re s with
                   | Ok st => (w ++ [OTok re s st], RNew (length w))
                   | Err e => (w, RErr e) | Panic _ => (w, RPanic) | Out => (w, ROut)
                   end
      | None => (w, RBadHandle)
      end
  | WAnalyze h s =>
      match get_regex w h with
      | Some re => match analyze re with
                   | Ok (table, st) => (w ++ [OAn re s table st], RNew (length w))
                   | Err e => (w, RErr e) | Panic _ => (w, RPanic) | Out => (w, ROut)
                   end
      | None => (w, RBadHandle)
      end
  | WNext h =>
      match nth_error w h with
      | Some (OTok re s st) =>
          match tok_next (r_prog re) s st with
          | Ok (t, st') => (upd w h (OTok re s st'), RTok t)
          | Err e => (w, RErr e) | Panic _ => (w, RPanic) | Out => (w, ROut)
          end
      | Some (OAn re s table st) =>
          match an_next (r_prog re) s table st with
          | Ok (e, st') => (upd w h (OAn re s table st'), REntry e)
          | Err e => (w, RErr e) | Panic _ => (w, RPanic) | Out => (w, ROut)
          end
      | _ => (w, RBadHandle)
      end
  | WDrop h =>
      match nth_error w h with
      | Some (ORegex _) => (w, RBadHandle)      (* a Regex outlives the iterators that borrow it *)
      | Some _ => (upd w h ODropped, RUnit)
      | None => (w, RBadHandle)
      end
  end.

Definition run (ops : list wop) : world * list wout :=
  fold_left (fun acc o => let '(w, outs) := acc in let '(w', r) := step w o in (w', outs ++ [r])) ops ([], []).
