(* ReProgram (re_program.rs) and ReMatcher::match_at / matches / check_preconditions (re_matcher.rs) *)
From RX Require Import Base.Prelude Base.InvList Tables.Consts Model.Case Model.Op Model.Engine.

Record precond := { pc_op : op; pc_fixed : option N; pc_min : N }.

Record program := {
  p_pattern : list N;             (* the (whitespace-stripped) pattern text: analyze scans it *)
  p_op : op;
  p_case : bool; p_multi : bool; p_literal : bool;     (* the flags the matcher reads *)
  p_prefix : option (list N);
  p_icc : option cset;
  p_pre : list precond;
  p_minlen : N;
  p_hasbol : bool; p_hasbackrefs : bool;
  p_maxparens : nat }.

(* ---------------------------------------------------------------- ReProgram::new *)
Definition is_repeat_min1 (o : op) : option (op * N) :=
  match repeat_view o with
  | Some (c, mn, _, _) => if N.leb 1 mn then Some (c, mn) else None
  | None => None
  end.

(* add_precondition / add_repeat_precondition; structural on the operation *)
Fixpoint add_pre (multi : bool) (o : op) (fp : option N) (mp : N) (acc : list precond) : list precond :=
  match o with
  | OAtom _ | OCls _ => acc ++ [{| pc_op := o; pc_fixed := fp; pc_min := mp |}]
  | OCapture _ c => add_pre multi c fp mp acc
  | OSeq os =>
      (fix go (l : list op) (fp : option N) (mp : N) (acc : list precond) : list precond :=
         match l with
         | [] => acc
         | x :: t =>
             let fp1 := match x with OBol => if multi then None else Some 0%N | _ => fp end in
             let acc' := add_pre multi x fp1 mp acc in
             let fp2 := match fp1, match_length x with
                        | Some a, Some l => cadd a l
                        | _, _ => None
                        end in
             go t fp2 (sadd mp (min_length x)) acc'
         end) os fp mp acc
  | ORepeat c mn _ _ | OGFixed c mn _ _ | ORFixed c mn _ _ | OUnamb c mn _ =>
      if N.leb 1 mn then
        match c with
        | OAtom _ | OCls _ =>
            if N.eqb mn 1 then acc ++ [{| pc_op := o; pc_fixed := fp; pc_min := mp |}]
            else acc ++ [{| pc_op := ORepeat c mn mn true; pc_fixed := fp; pc_min := mp |}]
        | _ => add_pre multi c fp mp acc
        end
      else acc
  | _ => acc
  end.

Definition mk_program (pattern : list N) (o : op) (maxparens : nat)
           (case_i multi literal hasbackrefs : bool) : program :=
  let first := match o with OSeq (f :: _) => Some f | _ => None end in
  {| p_pattern := pattern; p_op := o;
     p_case := case_i; p_multi := multi; p_literal := literal;
     p_prefix := match first with Some (OAtom a) => Some a | _ => None end;
     p_icc := match first with Some (OCls c) => Some c | _ => None end;
     p_pre := match o with OSeq _ => add_pre multi o None 0%N [] | _ => [] end;
     p_minlen := min_length o;
     p_hasbol := match first with Some OBol => true | _ => false end;
     p_hasbackrefs := hasbackrefs;
     p_maxparens := maxparens |}.

(* the verification hook's ReProgram::new_unoptimized *)
Definition mk_program_unopt (pattern : list N) (o : op) (maxparens : nat)
           (case_i multi literal hasbackrefs : bool) : program :=
  {| p_pattern := pattern; p_op := o;
     p_case := case_i; p_multi := multi; p_literal := literal;
     p_prefix := None; p_icc := None; p_pre := []; p_minlen := 0%N;
     p_hasbol := false; p_hasbackrefs := hasbackrefs; p_maxparens := maxparens |}.

(* ---------------------------------------------------------------- ReMatcher *)
Definition cs0 : cstate :=
  {| startn := repeat None capture_initial_len; endn := repeat None capture_initial_len; pcount := 0 |}.
Definition st0 : mstate := {| cs_ := cs0; sb := []; eb := []; anchored := false; hist := [] |}.

Inductive mres := MTrue (s : mstate) | MFalse (s : mstate) | MOut | MPanic (k : nat).

Section Matcher.
Variable prog : program.
Variable input : list N.
Let n := length input.
Let run (o : op) (path : list nat) := mi input (p_case prog) (p_multi prog) (p_hasbackrefs prog) o path.

Definition match_at (i : nat) (s : mstate) : mres :=
  let s1 := set_pstart 0 i (set_pcount 1 s) in
  let s2 := {| cs_ := cs_ s1;
               sb := if p_hasbackrefs prog then repeat None (p_maxparens prog) else sb s1;
               eb := if p_hasbackrefs prog then repeat None (p_maxparens prog) else eb s1;
               anchored := false; hist := [] |} in       (* the memo belongs to one matching attempt *)
  match run (p_op prog) [0] i s2 with
  | LCons q s3 _ => MTrue (set_pend 0 q s3)
  | LNil s3 => MFalse (set_pcount 0 s3)
  | LOut => MOut
  | LPanic k => MPanic k
  end.

(* precondition k is a clone of part of the program: its Repeat nodes have their own identity *)
Fixpoint pre_scan (o : op) (path : list nat) (fuel j : nat) (s : mstate) : res (bool * mstate) :=
  match fuel with
  | O => Ok (false, s)
  | S f =>
      match first_of (run o path j s) with
      | FSome _ s' => Ok (true, s')
      | FNone s' => pre_scan o path f (S j) s'
      | FOut => Out
      | FPanic k => Panic k
      end
  end.

Fixpoint check_pre (pre : list precond) (k : nat) (start : nat) (s : mstate) : res (bool * mstate) :=
  match pre with
  | [] => Ok (true, s)
  | pc :: t =>
      match pc_fixed pc with
      | Some fp =>
          (* a fixed position beyond every index cannot be a usize the code reaches with a match *)
          match first_of (run (pc_op pc) [S k] (N.to_nat (N.min fp (N.of_nat (n + 1)))) s) with
          | FSome _ s' => check_pre t (S k) start s'
          | FNone s' => Ok (false, s')
          | FOut => Out
          | FPanic e => Panic e
          end
      | None =>
          let i := Nat.max start (N.to_nat (N.min (pc_min pc) (N.of_nat (n + 1)))) in
          match pre_scan (pc_op pc) [S k] (n - i) i s with
          | Ok (true, s') => check_pre t (S k) start s'
          | r => r
          end
      end
  end.

Fixpoint try_from (fuel j : nat) (filter : nat -> bool) (s : mstate) : mres :=
  match fuel with
  | O => MFalse s
  | S f =>
      if filter j then
        match match_at j s with
        | MFalse s' => try_from f (S j) filter s'
        | r => r
        end
      else try_from f (S j) filter s
  end.

Fixpoint next_nl (fuel j : nat) : option nat :=
  match fuel with
  | O => None
  | S f => match nth_error input j with
           | Some c => if N.eqb c 10 then Some j else next_nl f (S j)
           | None => None
           end
  end.
Fixpoint bol_loop (fuel : nat) (nl : nat) (s : mstate) : mres :=
  match fuel with
  | O => MOut
  | S f =>
      let nl' := match next_nl (n + 1) nl with Some k => k + 1 | None => 0 end in
      if Nat.leb n nl' || Nat.eqb nl' 0 then MFalse s
      else match match_at nl' s with
           | MFalse s' => bol_loop f nl' s'
           | r => r
           end
  end.

Definition ceqp (a b : N) : bool := if p_case prog then equal_case_blind a b else N.eqb a b.

Definition matches (i : nat) (s_in : mstate) : mres :=
  let s := with_cs cs0 s_in in
  if p_hasbol prog then
    if negb (p_multi prog) then
      if Nat.eqb i 0 then
        match check_pre (p_pre prog) 0 i s with
        | Ok (true, s') => match_at i s'
        | Ok (false, s') => MFalse s'
        | Out => MOut
        | Panic k => MPanic k
        | Err _ => MPanic 0
        end
      else MFalse s
    else
      match match_at i s with
      | MFalse s' => bol_loop (n + 2) i s'
      | r => r
      end
  else if Nat.ltb n i then MPanic 20            (* search.len() - i underflows *)
  else if N.ltb (N.of_nat (n - i)) (p_minlen prog) then MFalse s
  else
    match p_prefix prog with
    | Some pre =>
        (* for j in i .. len + 1 - prefix.len() : the subtraction can underflow *)
        if Nat.ltb (n + 1) (length pre) then MPanic 21
        else try_from (n + 1 - length pre - i) i
                      (fun j => starts_with (fun a b => ceqp b a) pre (skipn j input)) s
    | None =>
        match p_icc prog with
        | Some cls =>
            try_from (n - i) i
                     (fun j => match nth_error input j with Some c => mem cls c | None => false end) s
        | None =>
            match check_pre (p_pre prog) 0 i s with
            | Ok (true, s') => try_from (n + 1 - i) i (fun _ => true) s'
            | Ok (false, s') => MFalse s'
            | Out => MOut
            | Panic k => MPanic k
            | Err _ => MPanic 0
            end
        end
    end.
End Matcher.
