(* matches_iter of every operation: Rust's boxed iterators over one shared RefCell<State> as
   resumable streams over a global state (DESIGN.md §3.4). *)
From RX Require Import Base.Prelude Base.InvList Tables.Consts Model.Case Model.Op.

(* ---------------------------------------------------------------- matcher state *)
Record cstate := { startn : list (option nat); endn : list (option nat); pcount : nat }.
Record mstate := { cs_ : cstate;
                   sb : list (option nat); eb : list (option nat);    (* start_backref / end_backref *)
                   anchored : bool;
                   hist : list (list nat * nat) }.                    (* History: (repeat node, position) *)

Inductive LS :=
| LNil (s : mstate)                                   (* exhausted; the state left behind *)
| LCons (p : nat) (s : mstate) (rest : mstate -> LS)  (* yields p; resumed with the then-current state *)
| LOut
| LPanic (site : nat).

Definition once p s := LCons p s (fun s' => LNil s').

(* CaptureState vectors grow by doubling until the index fits *)
Fixpoint grow (l : list (option nat)) (fuel : nat) (i : nat) : list (option nat) :=
  match fuel with
  | O => l
  | S f => if Nat.ltb i (length l) then l else grow (l ++ repeat None (length l)) f i
  end.
Definition setg (l : list (option nat)) (i v : nat) := upd (grow l 64 i) i (Some v).

Definition with_cs (c : cstate) (s : mstate) : mstate :=
  {| cs_ := c; sb := sb s; eb := eb s; anchored := anchored s; hist := hist s |}.
Definition set_pstart g p (s : mstate) :=
  with_cs {| startn := setg (startn (cs_ s)) g p; endn := endn (cs_ s); pcount := pcount (cs_ s) |} s.
Definition set_pend g p (s : mstate) :=
  with_cs {| startn := startn (cs_ s); endn := setg (endn (cs_ s)) g p; pcount := pcount (cs_ s) |} s.
Definition set_pcount k (s : mstate) :=
  with_cs {| startn := startn (cs_ s); endn := endn (cs_ s); pcount := k |} s.
(* start_backref[g] = v : an out-of-range index panics *)
Definition set_sb g v (s : mstate) : option mstate :=
  if Nat.ltb g (length (sb s)) then
    Some {| cs_ := cs_ s; sb := upd (sb s) g v; eb := eb s; anchored := anchored s; hist := hist s |}
  else None.
Definition set_eb g v (s : mstate) : option mstate :=
  if Nat.ltb g (length (eb s)) then
    Some {| cs_ := cs_ s; sb := sb s; eb := upd (eb s) g v; anchored := anchored s; hist := hist s |}
  else None.

Definition oge (a : option nat) (pos : nat) : bool :=      (* a >= Some(pos) on Option<usize> *)
  match a with Some x => Nat.leb pos x | None => false end.
(* for i in 0..starts.len(): if starts[i] >= Some(pos) { ends[i] = starts[i] }; None = index panic *)
Fixpoint clear_arr (starts ends : list (option nat)) (pos : nat) : option (list (option nat)) :=
  match starts, ends with
  | [], _ => Some ends
  | st :: ss, e :: es =>
      match clear_arr ss es pos with
      | Some r => Some ((if oge st pos then st else e) :: r)
      | None => None
      end
  | st :: ss, [] => if oge st pos then None else clear_arr ss [] pos
  end.
Definition clear_beyond (pos : nat) (s : mstate) : option mstate :=
  match clear_arr (startn (cs_ s)) (endn (cs_ s)) pos, clear_arr (sb s) (eb s) pos with
  | Some e1, Some e2 =>
      Some {| cs_ := {| startn := startn (cs_ s); endn := e1; pcount := pcount (cs_ s) |};
              sb := sb s; eb := e2; anchored := anchored s; hist := hist s |}
  | _, _ => None
  end.

(* ---------------------------------------------------------------- stream combinators *)
Fixpoint bind (l : LS) (k : nat -> mstate -> LS) : LS :=
  match l with
  | LNil s => LNil s | LOut => LOut | LPanic n => LPanic n
  | LCons p s rest =>
      (fix app (m : LS) : LS :=
         match m with
         | LNil s' => bind (rest s') k
         | LOut => LOut | LPanic n => LPanic n
         | LCons q s' r' => LCons q s' (fun s'' => app (r' s''))
         end) (k p s)
  end.
Fixpoint append (l : LS) (k : mstate -> LS) : LS :=
  match l with
  | LNil s => k s | LOut => LOut | LPanic n => LPanic n
  | LCons q s r => LCons q s (fun s' => append (r s') k)
  end.
(* apply a partial state transformer at each yield (None = the Rust code panics there) *)
Fixpoint map_yield (site : nat) (f : nat -> mstate -> option mstate) (l : LS) : LS :=
  match l with
  | LNil s => LNil s | LOut => LOut | LPanic n => LPanic n
  | LCons q s r =>
      match f q s with
      | Some s1 => LCons q s1 (fun s' => map_yield site f (r s'))
      | None => LPanic site
      end
  end.
Fixpoint on_nil (f : mstate -> mstate) (l : LS) : LS :=
  match l with
  | LNil s => LNil (f s) | LOut => LOut | LPanic n => LPanic n
  | LCons q s r => LCons q s (fun s' => on_nil f (r s'))
  end.

(* ForceProgressIterator: after more than [force_progress_threshold] repeats of one position the
   stream ends (the base iterator is not advanced again) *)
Fixpoint force_progress (cnt : nat) (cur : option nat) (l : LS) : LS :=
  match l with
  | LNil s => LNil s | LOut => LOut | LPanic n => LPanic n
  | LCons q s r =>
      let '(cnt', cur') :=
        match cur with
        | Some c => if Nat.eqb c q then (S cnt, cur) else (0, Some q)
        | None => (0, Some q)
        end in
      LCons q s (fun s' => if Nat.ltb force_progress_threshold cnt' then LNil s'
                           else force_progress cnt' cur' (r s'))
  end.

(* first result only: `let mut it = op.matches_iter(..); it.next()` with the iterator dropped *)
Inductive first := FSome (q : nat) (s : mstate) | FNone (s : mstate) | FOut | FPanic (site : nat).
Definition first_of (l : LS) : first :=
  match l with LCons q s _ => FSome q s | LNil s => FNone s | LOut => FOut | LPanic k => FPanic k end.

Definition nle (k : nat) (m : N) : bool := N.leb (N.of_nat k) m.     (* k <= m *)
Definition nlt (k : nat) (m : N) : bool := N.ltb (N.of_nat k) m.     (* k <  m *)
Definition neq (k : nat) (m : N) : bool := N.eqb (N.of_nat k) m.
(* a quantifier bound used as a depth: capped, so that it stays a small nat *)
Definition cap (m : N) (k : nat) : nat := N.to_nat (N.min m (N.of_nat k)).

Section Engine.
Variable input : list N.
Variable case_indep multi_line has_backrefs : bool.
Let n := length input.

Definition ceq (a b : N) : bool := if case_indep then equal_case_blind a b else N.eqb a b.
Definition is_nl (i : nat) : bool := match nth_error input i with Some c => N.eqb c 10 | None => false end.

Definition is_dup (id : list nat) (p : nat) (s : mstate) : bool * mstate :=
  if existsb (fun x => list_eqb Nat.eqb (fst x) id && Nat.eqb (snd x) p) (hist s) then (true, s)
  else (false, {| cs_ := cs_ s; sb := sb s; eb := eb s; anchored := anchored s;
                  hist := (id, p) :: hist s |}).

(* GreedyRepeatIterator as a post-order traversal.  z = 1 iff the zero-repetition entry is on the
   stack; flag = still on the chain built by the priming loop.  Both the priming loop and the later
   re-deepening allow [bound] repetitions (the zero entry does not count, since the D27 fix). *)
Fixpoint explore (body : nat -> mstate -> LS) (mn bound z : nat) (fuel : nat) (j : nat) (flag emp : bool)
         (p : nat) (s : mstate) : LS :=
  (* emp: some repetition on the path so far consumed nothing, which lifts the minimum *)
  let yield_here := (Nat.leb mn (z + j) || emp) && Nat.ltb 0 (z + j) in
  let can_deepen := Nat.ltb j bound in     (* j counts repetitions only; [flag] is kept for the record *)
  match fuel with
  | O => LOut
  | S f =>
      if can_deepen then
        (fix go (l : LS) (fl : bool) : LS :=
           match l with
           | LNil s' => if yield_here then once p s' else LNil s'
           | LOut => LOut | LPanic k => LPanic k
           | LCons q s' r =>
               append (explore body mn bound z f (S j) fl (emp || Nat.eqb q p) q s') (fun s'' => go (r s'') false)
           end) (body p s) flag
      else if yield_here then once p s else LNil s
  end.

(* ReluctantRepeatIterator: pre-order traversal; an iteration that consumed nothing is not
   repeated once the minimum is reached *)
Fixpoint rexplore (body : nat -> mstate -> LS) (mn bound : nat) (fuel : nat) (depth : nat)
         (descend emp : bool) (p : nat) (s : mstate) : LS :=
  match fuel with
  | O => LOut
  | S f =>
      if descend && Nat.ltb depth bound then
        (fix go (l : LS) : LS :=
           match l with
           | LNil s' => LNil s'
           | LOut => LOut | LPanic k => LPanic k
           | LCons q s' r =>
               let d' := S depth in
               let desc' := negb (Nat.eqb q p) || (Nat.ltb d' mn && negb emp) in
               let emp' := emp || Nat.eqb q p in
               if Nat.leb mn d' || emp' then
                 LCons q s' (fun s'' => append (rexplore body mn bound f d' desc' emp' q s'')
                                                (fun s3 => go (r s3)))
               else append (rexplore body mn bound f d' desc' emp' q s') (fun s3 => go (r s3))
           end) (body p s)
      else LNil s
  end.

(* IntStepIterator counting down from cur to limit in steps of len *)
Fixpoint int_step (len limit : nat) (fuel : nat) (cur : nat) (s : mstate) : LS :=
  match fuel with
  | O => LOut
  | S f =>
      if Nat.leb limit cur then
        LCons cur s (fun s' => if Nat.ltb cur len then LNil s'
                               else if Nat.eqb len 0 then LOut
                               else int_step len limit f (cur - len) s')
      else LNil s
  end.

(* probe loop of GreedyFixed: while p <= guard; only the body's first result is used *)
Fixpoint gf_probe (body : nat -> mstate -> LS) (len : nat) (mx : N) (guard : nat) (fuel : nat)
         (p matches : nat) (s : mstate) : res (nat * nat * mstate) :=
  match fuel with
  | O => Out
  | S f =>
      if Nat.leb p guard then
        match first_of (body p s) with
        | FSome _ s1 => let m := S matches in
                        let p' := p + len in
                        if neq m mx then Ok (p', m, s1) else gf_probe body len mx guard f p' m s1
        | FNone s1 => Ok (p, matches, s1)
        | FOut => Out
        | FPanic k => Panic k
        end
      else Ok (p, matches, s)
  end.

(* probe loop of UnambiguousRepeat: while matches < max && p <= guard *)
Fixpoint un_probe (body : nat -> mstate -> LS) (mx : N) (guard : nat) (fuel : nat)
         (p matches : nat) (s : mstate) : res (nat * nat * mstate) :=
  match fuel with
  | O => Out
  | S f =>
      if nlt matches mx && Nat.leb p guard then
        match first_of (body p s) with
        | FSome q s1 => un_probe body mx guard f q (S matches) s1
        | FNone s1 => Ok (p, matches, s1)
        | FOut => Out
        | FPanic k => Panic k
        end
      else Ok (p, matches, s)
  end.

(* ReluctantFixedIterator: first call matches the minimum, later calls one more each *)
Fixpoint rf_min (body : nat -> mstate -> LS) (mn : N) (fuel : nat) (count pos : nat) (s : mstate)
  : res (option (nat * nat) * mstate) :=
  match fuel with
  | O => Out
  | S f =>
      if nlt count mn then
        match first_of (body pos s) with
        | FSome q s1 => rf_min body mn f (S count) q s1
        | FNone s1 => Ok (None, s1)
        | FOut => Out
        | FPanic k => Panic k
        end
      else Ok (Some (count, pos), s)
  end.
Fixpoint rf_more (body : nat -> mstate -> LS) (mx : N) (position : nat) (fuel : nat)
         (count pos : nat) (s : mstate) : LS :=
  match fuel with
  | O => LOut
  | S f =>
      if nlt count mx then
        match clear_beyond position s with
        | None => LPanic 3
        | Some s0 =>
            match body pos s0 with
            | LCons q s1 _ => LCons q s1 (fun s' => rf_more body mx position f (S count) q s')
            | LNil s1 => LNil s1
            | LOut => LOut
            | LPanic k => LPanic k
            end
        end
      else LNil s
  end.

(* [path] identifies the node: History is keyed by the address of the Repeat *)
Fixpoint mi (o : op) (path : list nat) : nat -> mstate -> LS :=
  match o with
  | OAtom cs => fun p s =>
      if Nat.ltb n (p + length cs) then LNil s
      else if starts_with ceq cs (skipn p input) then once (p + length cs) s else LNil s
  | OCls cset => fun p s =>
      match nth_error input p with
      | Some c => if mem cset c then once (S p) s else LNil s
      | None => LNil s
      end
  | OBol => fun p s =>
      if Nat.eqb p 0 then once p s
      else if multi_line then
             (* is_new_line(position - 1) indexes the input *)
             if Nat.ltb n p then LPanic 10
             else if is_nl (p - 1) && Nat.ltb p n then once p s else LNil s
           else LNil s
  | OEol => fun p s =>
      if multi_line then (if Nat.eqb n 0 || Nat.leb n p || is_nl p then once p s else LNil s)
      else if Nat.eqb n 0 || Nat.leb n p then once p s else LNil s
  | ONothing => fun p s => once p s
  | OEnd => fun p s =>
      if anchored s then (if Nat.leb n p then once p s else LNil s)
      else once p (set_pend 0 p s)
  | OBackref g => fun p s =>
      match nth_error (sb s) g, nth_error (eb s) g with
      | Some (Some st), Some (Some e) =>
          if Nat.eqb st e then once p s
          else if Nat.ltb e st then LPanic 4
          else
            let l := e - st in
            if Nat.leb n (p + l - 1) then LNil s
            else if Nat.ltb n e then LPanic 11
            else if starts_with (fun a b => ceq b a) (slice input st e) (skipn p input)
                 then once (p + l) s else LNil s
      | Some _, Some _ => once p s        (* a group that has not participated: the empty string *)
      | _, _ => LPanic 5
      end
  | OCapture g o' => fun p s =>
      (* the back-reference arrays are written when the group has matched, start and end together *)
      map_yield 1 (fun q s1 =>
                     let s2 := if Nat.leb (pcount (cs_ s1)) g then set_pcount (S g) s1 else s1 in
                     let s3 := set_pend g q (set_pstart g p s2) in
                     if has_backrefs then
                       match set_sb g (Some p) s3 with
                       | Some s4 => set_eb g (Some q) s4
                       | None => None
                       end
                     else Some s3)
                (mi o' (0 :: path) p s)
  | OChoice bs => fun p s =>
      (fix go (bs : list op) (i : nat) (s : mstate) : LS :=
         match bs with
         | [] => LNil s
         | b :: bs' =>
             match clear_beyond p s with
             | Some s0 => append (mi b (i :: path) p s0) (fun s' => go bs' (S i) s')
             | None => LPanic 6
             end
         end) bs 0 s
  | OSeq os => fun p s =>
      let saved := if contains_cap (OSeq os) then Some (cs_ s) else None in
      on_nil (fun s' => match saved with Some c => with_cs c s' | None => s' end)
             ((fix go (os : list op) (i : nat) (p : nat) (s : mstate) : LS :=
                 match os with
                 | [] => LPanic 7
                 | [o1] => map_yield 8 (fun q s1 => clear_beyond q s1) (mi o1 (i :: path) p s)
                 | o1 :: os' =>
                     bind (mi o1 (i :: path) p s)
                          (fun q s1 => match clear_beyond q s1 with
                                       | Some s2 => go os' (S i) q s2
                                       | None => LPanic 8
                                       end)
                 end) os 0 p s)
  | ORepeat o' mn mx greedy => fun p s =>
      (* search.len().saturating_sub(position) + 1: a precondition may be probed beyond the input *)
      let bound := cap mx (n - p + 1) in
      let mnc := cap mn (bound + 2) in
      if greedy then
        let '(z, s0) := if N.eqb mn 0 then (let '(d, s') := is_dup path p s in
                                            (if d then 0 else 1, s'))
                        else (0, s) in
        (* the zero-repetition entry is an unconsumed iter::once: when it becomes the top of the
           stack it yields the start position, which re-deepens from there a second time *)
        let first_pass := explore (mi o' (0 :: path)) mnc bound z (n + 5) 0 true false p s0 in
        force_progress 0 None
          (if Nat.eqb z 1
           then append first_pass (fun s' => explore (mi o' (0 :: path)) mnc bound z (n + 5) 0 false false p s')
           else first_pass)
      else
        force_progress 0 None
          (if N.eqb mn 0
           then LCons p s (fun s' => rexplore (mi o' (0 :: path)) mnc bound (n + 5) 0 true false p s')
           else rexplore (mi o' (0 :: path)) mnc bound (n + 5) 0 true false p s)
  | OGFixed o' mn mx len => fun p s =>
      let leng := N.to_nat len in
      let guard := if N.ltb mx umax
                   then N.to_nat (N.min (N.of_nat n) (sadd (N.of_nat p) (smul len mx))) else n in
      if Nat.leb guard p && N.ltb 0 mn then LNil s
      else
        match gf_probe (mi o' (0 :: path)) leng mx guard (n + 5) p 0 s with
        | Out => LOut
        | Panic k => LPanic k
        | Err _ => LPanic 0
        | Ok (p', m, s1) =>
            if nlt m mn then LNil s1 else int_step leng (p + leng * N.to_nat mn) (S p') p' s1
        end
  | ORFixed o' mn mx len => fun p s =>
      match rf_min (mi o' (0 :: path)) mn (n + 5) 0 p s with
      | Out => LOut
      | Panic k => LPanic k
      | Err _ => LPanic 0
      | Ok (None, s1) => LNil s1
      | Ok (Some (count, pos), s1) =>
          LCons pos s1 (fun s' => rf_more (mi o' (0 :: path)) mx p (n + 5) count pos s')
      end
  | OUnamb o' mn mx => fun p s =>
      match un_probe (mi o' (0 :: path)) mx n (n + 5) p 0 s with
      | Out => LOut
      | Panic k => LPanic k
      | Err _ => LPanic 0
      | Ok (p', m, s1) => if nlt m mn then LNil s1 else once p' s1
      end
  end.
End Engine.
