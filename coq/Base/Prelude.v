(* Common imports, outcome type, small list helpers shared by model and proofs. *)
From Coq Require Export List Arith NArith ZArith Bool Lia.
Export ListNotations.

(* Code points are N, positions / lengths / fuel are nat, quantifier bounds are N. *)
Definition char := N.
Definition str := list char.

Definition umax : N := 18446744073709551615%N.      (* usize::MAX on the 64-bit targets modelled *)
Definition max_cp : N := 1114111%N.                   (* 0x10FFFF *)

Definition is_scalar (c : N) : bool :=
  (N.ltb c 55296 || (N.leb 57344 c && N.leb c max_cp))%bool.

(* Outcomes of a modelled Rust computation.  [Panic] and [Out] never look like values. *)
Inductive errkind := EInternal | EInvalidFlags | ESyntax | EMatchesEmpty | EInvalidRepl.
Inductive res (A : Type) :=
| Ok (a : A)
| Err (e : errkind)
| Panic (site : nat)      (* a Rust panic: index out of bounds, unwrap on None, overflow ... *)
| Out.                    (* local loop fuel exhausted: the model's image of non-termination *)
Arguments Ok {A} a.
Arguments Err {A} e.
Arguments Panic {A} site.
Arguments Out {A}.

Definition rbind {A B} (r : res A) (k : A -> res B) : res B :=
  match r with Ok a => k a | Err e => Err e | Panic n => Panic n | Out => Out end.
Notation "x <- r ;; k" := (rbind r (fun x => k)) (at level 61, r at next level, right associativity).
Notation "' p <- r ;; k" := (rbind r (fun p => k)) (at level 61, p pattern, r at next level, right associativity).

Fixpoint upd {A} (l : list A) (i : nat) (v : A) : list A :=
  match l, i with
  | [], _ => []
  | _ :: t, O => v :: t
  | h :: t, S i' => h :: upd t i' v
  end.

Definition nth_opt {A} (l : list A) (i : nat) : option A := nth_error l i.

Fixpoint list_eqb {A} (eqb : A -> A -> bool) (a b : list A) : bool :=
  match a, b with
  | [], [] => true
  | x :: a', y :: b' => eqb x y && list_eqb eqb a' b'
  | _, _ => false
  end.

(* prefix test: does [p] occur at the head of [l] (with comparison [eqb]) *)
Fixpoint starts_with {A} (eqb : A -> A -> bool) (p l : list A) : bool :=
  match p, l with
  | [], _ => true
  | x :: p', y :: l' => eqb x y && starts_with eqb p' l'
  | _ :: _, [] => false
  end.

Definition slice {A} (l : list A) (a b : nat) : list A := firstn (b - a) (skipn a l).

(* the ReFlags fields a flag letter can set (re_flags.rs); the letter -> field table is generated *)
Inductive flagfield := FCase | FMulti | FSingle | FLiteral | FWhitespace.

Definition is_digit (c : N) : bool := (N.leb 48 c) && (N.leb c 57).
Definition dval (c : N) : nat := N.to_nat (c - 48).
