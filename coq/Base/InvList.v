(* Code-point sets as sorted lists of disjoint, non-adjacent inclusive ranges: the model of
   icu_collections' CodePointInversionList / CodePointInversionListBuilder (trusted base: the ICU
   builder is *modelled* by this algebra; tied by the C09/C10 membership sweeps).
   Definitions only; the algebraic facts are in Proofs/InvListFacts.v. *)
From RX Require Import Base.Prelude.
Local Open Scope N_scope.

Definition cset := list (N * N).

Definition inr (c : N) (r : N * N) : bool := (fst r <=? c) && (c <=? snd r).
Definition mem (s : cset) (c : N) : bool := existsb (inr c) s.

Definition empty : cset := [].
Definition all : cset := [(0, max_cp)].

(* union with one range; structural on [s]; merges overlapping and adjacent ranges *)
Fixpoint add_range (lo hi : N) (s : cset) : cset :=
  match s with
  | [] => [(lo, hi)]
  | (a, b) :: t =>
      if hi + 1 <? a then (lo, hi) :: s
      else if b + 1 <? lo then (a, b) :: add_range lo hi t
      else add_range (N.min lo a) (N.max hi b) t
  end.
Definition add_char (c : N) (s : cset) : cset := add_range c c s.
Definition union (a b : cset) : cset := fold_right (fun r acc => add_range (fst r) (snd r) acc) a b.

(* complement within [start, max_cp] of a sorted set whose ranges all start at or after [start] *)
Fixpoint compl_from (start : N) (s : cset) : cset :=
  match s with
  | [] => if start <=? max_cp then [(start, max_cp)] else []
  | (a, b) :: t => (if start <? a then [(start, a - 1)] else []) ++ compl_from (b + 1) t
  end.
Definition compl (s : cset) : cset := compl_from 0 s.
Definition inter (a b : cset) : cset := compl (union (compl a) (compl b)).
Definition diff (a b : cset) : cset := inter a (compl b).
Definition remove_char (c : N) (s : cset) : cset := diff s [(c, c)].
Definition of_chars (l : list N) : cset := fold_right add_char empty l.

(* CodePointInversionList::iter_chars, truncated: the first [k] scalar values in increasing order *)
Fixpoint take_range (k : nat) (c hi : N) : list N :=
  match k with
  | O => []
  | S k' =>
      let c := if (55296 <=? c) && (c <=? 57343) then 57344 else c in
      if c <=? hi then c :: take_range k' (c + 1) hi else []
  end.
Fixpoint take_chars (k : nat) (s : cset) : list N :=
  match s with
  | [] => []
  | (a, b) :: t => let l := take_range k a b in l ++ take_chars (k - length l) t
  end.

(* CharacterClass::is_disjoint with its give-up threshold *)
Definition is_disjoint (threshold : nat) (self other : cset) : bool :=
  let cs := take_chars (S threshold) other in
  if existsb (mem self) cs then false else Nat.leb (length cs) threshold.

(* well-formedness: every range non-empty, within max_cp, strictly increasing with a gap *)
Fixpoint wf_from (start : N) (s : cset) : bool :=
  match s with
  | [] => true
  | (a, b) :: t => (start <=? a) && (a <=? b) && (b <=? max_cp) && wf_from (b + 2) t
  end.
Definition wf (s : cset) : bool := wf_from 0 s.
