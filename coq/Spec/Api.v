(* Specification-level entry points: from (dialect, flags, pattern) to the abstract syntax, and the
   API results as functions of the selected match spans. *)
From RX Require Import Base.Prelude Spec.Syntax Spec.Parse Spec.CharSet Spec.Sem.

Definition spec_compile (xpath : bool) (fls pat : list N) : verdict (sflags * re) :=
  match spec_flags xpath fls with
  | Valid fl =>
      if s_q fl then Valid (fl, RSeq (map RChar pat))       (* every character stands for itself *)
      else match spec_parse xpath (if s_x fl then spec_strip pat 0 false else pat) with
           | Valid r => Valid (fl, r)
           | Invalid => Invalid
           | Unspecified => Unspecified
           end
  | Invalid => Invalid
  | Unspecified => Unspecified
  end.

(* the regex matches the zero-length string *)
Definition spec_nullable (fl : sflags) (r : re) : bool := spec_is_match_R fl [] r.

Section Pieces.
Variable s : list N.
(* text between consecutive spans, including before the first and after the last *)
Fixpoint pieces (spans : list (nat * nat)) (pos : nat) : list (list N) :=
  match spans with
  | [] => [skipn pos s]
  | (i, j) :: t => slice s pos i :: pieces t j
  end.
End Pieces.

Definition spec_tokenize (s : list N) (spans : list (nat * nat)) : list (list N) :=
  match s with [] => [] | _ => pieces s spans 0 end.
