(* Specification-level entry points: from (dialect, flags, pattern) to the abstract syntax, and the
   API results as functions of the selected match spans. *)
From RX Require Import Base.Prelude Spec.Syntax Spec.Parse Spec.CharSet Spec.Sem.

Definition spec_compile (xpath : bool) (fls pat : list N) : verdict (sflags * re) :=
  match spec_flags xpath fls with
  | Valid fl =>
      if s_q fl then Valid (fl, RSeq (map RChar pat))       (* every character stands for itself *)
      else match spec_parse xpath (if s_x fl then spec_strip pat 0 false else pat) with
           | Valid r => Valid (fl, r)
           | Invalid => Invalid
           | Unspecified => Unspecified
           end
  | Invalid => Invalid
  | Unspecified => Unspecified
  end.

(* the regex matches the zero-length string *)
Definition spec_nullable (fl : sflags) (r : re) : bool :=
  if has_backref r then spec_is_match_R fl [] r else spec_is_match fl [] r.

Section Pieces.
Variable s : list N.
(* text between consecutive spans, including before the first and after the last *)
Fixpoint pieces (spans : list (nat * nat)) (pos : nat) : list (list N) :=
  match spans with
  | [] => [skipn pos s]
  | (i, j) :: t => slice s pos i :: pieces t j
  end.
End Pieces.

Definition spec_tokenize (s : list N) (spans : list (nat * nat)) : list (list N) :=
  match s with [] => [] | _ => pieces s spans 0 end.

(* ---------------------------------------------------------------- the weak clause of C02 *)
Section Weak.
Variable fl : sflags.
Variable s : list N.
Variable r : re.
Let n := length s.

(* s[i..j) is a match of r: through [ends] when r has no back-reference, else through [R] *)
Definition is_member (i j : nat) : bool :=
  if has_backref r then existsb (fun je => Nat.eqb (fst je) j) (R fl s r i [])
  else in_lang fl s r i j.
Definition starts_match (p : nat) : bool :=
  if has_backref r then match R fl s r p [] with [] => false | _ => true end
  else match ends fl s r p with [] => false | _ => true end.
Definition none_between (a b : nat) : bool := forallb (fun p => negb (starts_match p)) (seq a (b - a)).

(* every reported span is a member of the match relation and starts at the leftmost position at
   or after the previous end where any match starts; spans are non-empty and in order *)
Fixpoint weak_valid (spans : list (nat * nat)) (prev : nat) : bool :=
  match spans with
  | [] => none_between prev n
  | (i, j) :: t =>
      Nat.leb prev i && Nat.ltb i j && Nat.leb j n && is_member i j && none_between prev i && weak_valid t j
  end.
End Weak.

(* membership of one character in a pattern that is a single character-class term *)
Definition single_class_mem (fl : sflags) (r : re) (c : N) : option bool :=
  let go := fix go (r : re) : option bool :=
    match r with
    | RChar a => Some (lit_eq (s_i fl) a c)
    | RDot => Some (s_s fl || negb (N.eqb c 10 || N.eqb c 13))
    | RCls ce => Some (class_mem (s_i fl) ce c)
    | REsc e => Some (esc_mem e c)
    | RSeq [x] => go x
    | RNc x => go x
    | _ => None
    end in go r.
