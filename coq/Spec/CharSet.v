(* Denotation of class escapes and character class expressions as membership predicates
   (set algebra on parts), XML name characters, and the case relation used under flag i. *)
From RX Require Import Base.Prelude Base.InvList Spec.Syntax Spec.Parse.
From RX Require Import Tables.IcuGc Tables.IcuCase Tables.BlocksTxt Model.Case.
Local Open Scope N_scope.

(* XML 1.0 (5th ed.) NameStartChar and NameChar, typed from the Recommendation *)
Definition xml_name_start : list (N * N) :=
  [(58,58); (65,90); (95,95); (97,122); (192,214); (216,246); (248,767); (880,893); (895,8191);
   (8204,8205); (8304,8591); (11264,12271); (12289,55295); (63744,64975); (65008,65533); (65536,983039)].
Definition xml_name_extra : list (N * N) :=
  [(45,46); (48,57); (183,183); (768,879); (8255,8256)].
Definition in_ranges (l : list (N * N)) (c : N) : bool := existsb (inr c) l.
Definition is_name_start (c : N) : bool := in_ranges xml_name_start c.
Definition is_name_char (c : N) : bool := in_ranges xml_name_start c || in_ranges xml_name_extra c.

(* General_Category: the two-letter categories are data (Tables/IcuGc.v, cross-checked in C10);
   a one-letter group is the union of its members *)
Definition two_letter : list (list N * cset) :=
  [([76;117], gc_UppercaseLetter); ([76;108], gc_LowercaseLetter); ([76;116], gc_TitlecaseLetter);
   ([76;109], gc_ModifierLetter); ([76;111], gc_OtherLetter);
   ([77;110], gc_NonspacingMark); ([77;99], gc_SpacingMark); ([77;101], gc_EnclosingMark);
   ([78;100], gc_DecimalNumber); ([78;108], gc_LetterNumber); ([78;111], gc_OtherNumber);
   ([80;99], gc_ConnectorPunctuation); ([80;100], gc_DashPunctuation); ([80;115], gc_OpenPunctuation);
   ([80;101], gc_ClosePunctuation); ([80;105], gc_InitialPunctuation); ([80;102], gc_FinalPunctuation);
   ([80;111], gc_OtherPunctuation);
   ([90;115], gc_SpaceSeparator); ([90;108], gc_LineSeparator); ([90;112], gc_ParagraphSeparator);
   ([83;109], gc_MathSymbol); ([83;99], gc_CurrencySymbol); ([83;107], gc_ModifierSymbol);
   ([83;111], gc_OtherSymbol);
   ([67;99], gc_Control); ([67;102], gc_Format); ([67;111], gc_PrivateUse); ([67;110], gc_Unassigned)].

Definition cat_mem (name : list N) (c : N) : bool :=
  match name with
  | [_; _] => existsb (fun kv => name_eqb (fst kv) name && mem (snd kv) c) two_letter
  | [g] => existsb (fun kv => match fst kv with g' :: _ => (g' =? g) && mem (snd kv) c | [] => false end) two_letter
  | _ => false
  end.

Definition block_mem (name : list N) (c : N) : bool :=
  if name_eqb name private_use then
    ((57344 <=? c) && (c <=? 63743)) || ((983040 <=? c) && (c <=? 1048573)) || ((1048576 <=? c) && (c <=? 1114109))
  else
    (* the last entry with that (space-stripped) name, as the shipped list is read in order *)
    match fold_left (fun acc b => let '(bn, lo, hi) := b in
                                  if name_eqb (strip_spaces bn) name then Some (lo, hi) else acc)
                    blocks_txt None with
    | Some (lo, hi) => (lo <=? c) && (c <=? hi)
    | None => false
    end.

Definition esc_mem (e : cesc) (c : N) : bool :=
  match e with
  | Es => is_ws c | ES => negb (is_ws c)
  | Ei => is_name_start c | EI => negb (is_name_start c)
  | Ec => is_name_char c | EC => negb (is_name_char c)
  | Ed => cat_mem [78;100] c | ED => negb (cat_mem [78;100] c)
  | Ew => negb (cat_mem [80] c || cat_mem [90] c || cat_mem [67] c || ((55296 <=? c) && (c <=? 57343)))
  | EW => cat_mem [80] c || cat_mem [90] c || cat_mem [67] c
  | ECat neg nm => xorb neg (cat_mem nm c)
  | EBlock neg nm => xorb neg (block_mem nm c)
  end.

(* case relation under flag i: literals and back-references compare simple lower-case mappings;
   a class item also matches the case variants of its members (the two coincide on the clean
   alphabets C11 quantifies over) *)
Definition lit_eq (ci : bool) (a b : N) : bool := (a =? b) || (ci && (simple_lower a =? simple_lower b)).

Definition item_mem (ci : bool) (it : citem) (c : N) : bool :=
  match it with
  | IChar a => (a =? c) || (ci && mem (closure_of a) c)
  | IRange lo hi =>
      ((lo <=? c) && (c <=? hi))
      || (ci && existsb (fun kv => (lo <=? fst kv) && (fst kv <=? hi) && mem (snd kv) c) closure_table)
  | IEsc e => esc_mem e c
  end.

Fixpoint class_mem (ci : bool) (ce : cexpr) (c : N) : bool :=
  match ce with
  | CGroup neg items sub =>
      let pos := existsb (fun it => item_mem ci it c) items in
      let base := if neg then negb pos else pos in
      match sub with
      | Some s' => base && negb (class_mem ci s' c)
      | None => base
      end
  end.
