(* Decidable pattern classes used to attribute run-time violations to recorded known findings
   (known_findings.json).  A violation is attributed only if the pattern is in the class AND the
   code's output equals the faithful model's. *)
From RX Require Import Base.Prelude Spec.Syntax Spec.Sem.

Fixpoint has_quant (r : re) : bool :=
  match r with
  | RQuant _ _ _ _ => true
  | RGroup _ r' | RNc r' => has_quant r'
  | RSeq rs | RAlt rs => existsb has_quant rs
  | _ => false
  end.
Fixpoint has_wide_alt (r : re) : bool :=
  match r with
  | RAlt rs => Nat.leb 5 (length rs) || existsb has_wide_alt rs
  | RGroup _ r' | RNc r' | RQuant r' _ _ _ => has_wide_alt r'
  | RSeq rs => existsb has_wide_alt rs
  | _ => false
  end.
(* K1: a quantifier nested inside a quantifier, a quantified alternation with >= 5 branches, or a
   quantifier over a body that can match empty (History memo under an enclosing loop; the
   ForceProgress cut-off, which the repository's own test test_plus_inside_and_star_inside_capture_group
   pins: a plus over a starred group followed by B must not match "AB") *)
Fixpoint k_nested_quant0 (r : re) : bool :=
  match r with
  | RQuant r' _ _ _ => has_quant r' || has_wide_alt r' || k_nested_quant0 r'
  | RGroup _ r' | RNc r' => k_nested_quant0 r'
  | RSeq rs | RAlt rs => existsb k_nested_quant0 rs
  | _ => false
  end.
Definition k_nested_quant (r : re) : bool := k_nested_quant0 r || negb (strict_ok r).

Fixpoint has_zero_width (r : re) : bool :=
  match r with
  | RBol | REol | RBackref _ => true
  | RGroup _ r' | RNc r' | RQuant r' _ _ _ => has_zero_width r'
  | RSeq rs | RAlt rs => existsb has_zero_width rs
  | _ => false
  end.
(* K2: a quantifier with minimum >= 2 over a body that can be empty only through a zero-width test
   (the depth bound len-pos+1 of the variable-length repeat iterators) *)
Fixpoint k_counted_zero_width (r : re) : bool :=
  match r with
  | RQuant r' mn _ _ => (N.leb 2 mn && nullable_syn r' && has_zero_width r') || k_counted_zero_width r'
  | RGroup _ r' | RNc r' => k_counted_zero_width r'
  | RSeq rs | RAlt rs => existsb k_counted_zero_width rs
  | _ => false
  end.

Fixpoint has_group (r : re) : bool :=
  match r with
  | RGroup _ _ => true
  | RNc r' | RQuant r' _ _ _ => has_group r'
  | RSeq rs | RAlt rs => existsb has_group rs
  | _ => false
  end.
(* K3: a capturing group inside a quantifier or an alternation (captures are not restored when
   the engine backtracks: "clear beyond" empties them instead) *)
Fixpoint k_group_backtrack (r : re) : bool :=
  match r with
  | RQuant r' _ _ _ => has_group r'
  | RAlt rs => existsb has_group rs
  | RGroup _ r' | RNc r' => k_group_backtrack r'
  | RSeq rs => existsb k_group_backtrack rs
  | _ => false
  end.
