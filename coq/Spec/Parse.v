(* The grammar of XSD 1.1 regular expressions with the XPath 3.1 extensions, as an executable
   recursive-descent recogniser over lists: one function per production.  Three-valued
   (DESIGN.md §3.2): Invalid only for the malformations property C07/C17 lists, Unspecified for the
   fine print (hyphens inside classes, '^' elsewhere than first in a class, bounds beyond 2^64-1). *)
From RX Require Import Base.Prelude Spec.Syntax Tables.BlocksTxt.
Local Open Scope N_scope.

Inductive pres (A : Type) := PV (a : A) (rest : list N) | PI | PU.
Arguments PV {A} a rest.
Arguments PI {A}.
Arguments PU {A}.

Definition pbind {A B} (r : pres A) (k : A -> list N -> pres B) : pres B :=
  match r with PV a rest => k a rest | PI => PI | PU => PU end.

(* the category names of XSD 1.1 appendix (Cs is not allowed) *)
Definition spec_categories : list (list N) :=
  [[76]; [76;117]; [76;108]; [76;116]; [76;109]; [76;111];                 (* L Lu Ll Lt Lm Lo *)
   [77]; [77;110]; [77;99]; [77;101];                                       (* M Mn Mc Me *)
   [78]; [78;100]; [78;108]; [78;111];                                      (* N Nd Nl No *)
   [80]; [80;99]; [80;100]; [80;115]; [80;101]; [80;105]; [80;102]; [80;111]; (* P Pc Pd Ps Pe Pi Pf Po *)
   [90]; [90;115]; [90;108]; [90;112];                                      (* Z Zs Zl Zp *)
   [83]; [83;109]; [83;99]; [83;107]; [83;111];                             (* S Sm Sc Sk So *)
   [67]; [67;99]; [67;102]; [67;111]; [67;110]].                            (* C Cc Cf Co Cn *)

Definition name_eqb := list_eqb N.eqb.
Definition strip_spaces (nm : list N) : list N := filter (fun c => negb (c =? 32)) nm.
Definition private_use : list N := [80;114;105;118;97;116;101;85;115;101].
Definition spec_block_known (nm : list N) : bool :=
  name_eqb nm private_use
  || existsb (fun b => let '(bn, _, _) := b in name_eqb (strip_spaces bn) nm) blocks_txt.

Definition single_escape_chars : list N :=
  [92; 124; 46; 45; 94; 63; 42; 43; 123; 125; 40; 41; 91; 93].      (* \ | . - ^ ? * + { } ( ) [ ] *)

Inductive escres := XChar (c : N) | XMulti (e : cesc) | XDigit (d : N).

(* what follows a backslash; [s] starts after the backslash *)
Fixpoint until_brace (s : list N) (acc : list N) : option (list N * list N) :=
  match s with
  | [] => None
  | c :: t => if c =? 125 then Some (rev acc, t) else until_brace t (c :: acc)
  end.

Definition p_escape (xpath : bool) (s : list N) : pres escres :=
  match s with
  | [] => PI                                            (* dangling backslash *)
  | e :: t =>
      if e =? 110 then PV (XChar 10) t
      else if e =? 114 then PV (XChar 13) t
      else if e =? 116 then PV (XChar 9) t
      else if existsb (N.eqb e) single_escape_chars then PV (XChar e) t
      else if e =? 36 then (if xpath then PV (XChar 36) t else PI)
      else if e =? 115 then PV (XMulti Es) t else if e =? 83 then PV (XMulti ES) t
      else if e =? 105 then PV (XMulti Ei) t else if e =? 73 then PV (XMulti EI) t
      else if e =? 99 then PV (XMulti Ec) t else if e =? 67 then PV (XMulti EC) t
      else if e =? 100 then PV (XMulti Ed) t else if e =? 68 then PV (XMulti ED) t
      else if e =? 119 then PV (XMulti Ew) t else if e =? 87 then PV (XMulti EW) t
      else if (e =? 112) || (e =? 80) then
        match t with
        | c :: t' =>
            if c =? 123 then
              match until_brace t' [] with
              | None => PI
              | Some (name, rest) =>
                  let neg := e =? 80 in
                  if existsb (name_eqb name) spec_categories then PV (XMulti (ECat neg name)) rest
                  else match name with
                       | 73 :: 115 :: bn =>
                           if Nat.leb (length name) 2 then PI
                           else if spec_block_known bn then PV (XMulti (EBlock neg bn)) rest else PI
                       | _ => PI
                       end
              end
            else PI
        | [] => PI
        end
      else if (49 <=? e) && (e <=? 57) then PV (XDigit e) t
      else PI                                           (* unknown escape, including \0 *)
  end.

(* ---------------------------------------------------------------- character class expressions *)
(* after '[' ; the items are accumulated in reverse *)
Fixpoint p_class (fuel : nat) (xpath : bool) (s : list N) : pres cexpr :=
  match fuel with
  | O => PU
  | S f =>
      let '(neg, s1) := match s with c :: t => if c =? 94 then (true, t) else (false, s) | [] => (false, s) end in
      p_items f xpath neg s1 [] true
  end
with p_items (fuel : nat) (xpath neg : bool) (s : list N) (acc : list citem) (first : bool) : pres cexpr :=
  match fuel with
  | O => PU
  | S f =>
      (* a single character just read: a range if "-x" follows, else an item *)
      let after_single (a : N) (t : list N) : pres cexpr :=
        match t with
        | 45 :: 93 :: _ => p_items f xpath neg t (IChar a :: acc) false        (* a-] : hyphen is last *)
        | 45 :: 91 :: _ => p_items f xpath neg t (IChar a :: acc) false        (* a-[ : subtraction *)
        | 45 :: 45 :: _ => PU
        | 45 :: 92 :: t2 =>
            pbind (p_escape xpath t2) (fun e rest =>
              match e with
              | XChar b => if b <? a then PI
                           else match rest with 45 :: x :: _ => if (x =? 93) || (x =? 91) then p_items f xpath neg rest (IRange a b :: acc) false else PU
                                            | _ => p_items f xpath neg rest (IRange a b :: acc) false end
              | XMulti _ => PU
              | XDigit _ => PI
              end)
        | 45 :: b :: t2 =>
            if (b =? 91) || (b =? 93) then PU       (* unreachable: handled above *)
            else if b <? a then PI                   (* reversed range *)
            else match t2 with
                 | 45 :: x :: _ => if (x =? 93) || (x =? 91) then p_items f xpath neg t2 (IRange a b :: acc) false else PU
                 | _ => p_items f xpath neg t2 (IRange a b :: acc) false
                 end
        | _ => p_items f xpath neg t (IChar a :: acc) false
        end in
      match s with
      | [] => PI                                        (* unterminated *)
      | c :: t =>
          if c =? 93 then                               (* ']' *)
            match acc with [] => PI | _ => PV (CGroup neg (rev acc) None) t end
          else if c =? 91 then PI                       (* unescaped '[' *)
          else if c =? 45 then                          (* '-' *)
            match t with
            | 91 :: t2 =>                               (* "-[" subtraction *)
                match acc with
                | [] => PI
                | _ => pbind (p_class f xpath t2) (fun sub rest =>
                         match rest with
                         | 93 :: rest' => PV (CGroup neg (rev acc) (Some sub)) rest'
                         | _ => PI
                         end)
                end
            | 93 :: _ => p_items f xpath neg t (IChar 45 :: acc) false       (* last: literal hyphen *)
            | _ => if first then
                     match t with
                     | 45 :: _ => PU
                     | _ => p_items f xpath neg t (IChar 45 :: acc) false     (* first: literal hyphen *)
                     end
                   else PU
            end
          else if c =? 92 then
            pbind (p_escape xpath t) (fun e rest =>
              match e with
              | XChar a => after_single a rest
              | XMulti m => match rest with
                            | 45 :: x :: _ => if (x =? 93) || (x =? 91) then p_items f xpath neg rest (IEsc m :: acc) false else PU
                            | _ => p_items f xpath neg rest (IEsc m :: acc) false
                            end
              | XDigit _ => PI                          (* back-reference inside a class *)
              end)
          else if (c =? 94) && negb first then PU
          else after_single c t
      end
  end.

(* ---------------------------------------------------------------- regular expressions *)
Record pst := { opened : nat; closed : list nat }.

Fixpoint digits (s : list N) (acc : N) (seen : bool) : option (N * list N) :=
  match s with
  | d :: t => if is_digit d then digits t (acc * 10 + (d - 48)) true
              else if seen then Some (acc, s) else None
  | [] => if seen then Some (acc, s) else None
  end.

(* quantifier after an atom: returns (min, max) *)
Definition p_quant (s : list N) : pres (option (N * option N)) :=
  match s with
  | 63 :: t => PV (Some (0, Some 1)) t
  | 42 :: t => PV (Some (0, None)) t
  | 43 :: t => PV (Some (1, None)) t
  | 123 :: t =>
      match digits t 0 false with
      | None => PI
      | Some (mn, t1) =>
          match t1 with
          | 125 :: t2 => if umax <? mn then PU else PV (Some (mn, Some mn)) t2
          | 44 :: 125 :: t2 => if umax <? mn then PU else PV (Some (mn, None)) t2
          | 44 :: t2 =>
              match digits t2 0 false with
              | None => PI
              | Some (mx, t3) =>
                  match t3 with
                  | 125 :: t4 => if mx <? mn then PI
                                 else if umax <? mx then PU else PV (Some (mn, Some mx)) t4
                  | _ => PI
                  end
              end
          | _ => PI
          end
      end
  | _ => PV None s
  end.

(* \N : the longest number not exceeding the groups opened so far *)
Fixpoint backref_num (s : list N) (g : nat) (limit : nat) : nat * list N :=
  match s with
  | d :: t => if is_digit d && Nat.leb (g * 10 + dval d) limit then backref_num t (g * 10 + dval d) limit
              else (g, s)
  | [] => (g, s)
  end.

Definition is_quant_start (c : N) : bool := (c =? 63) || (c =? 42) || (c =? 43) || (c =? 123).

Fixpoint p_regexp (fuel : nat) (xpath : bool) (st : pst) (s : list N) : pres (re * pst) :=
  match fuel with
  | O => PU
  | S f =>
      pbind (p_branch f xpath st s []) (fun '(b, st1) rest =>
        pbind (p_more f xpath st1 rest [b]) (fun '(bs, st2) rest2 =>
          PV (match bs with [x] => x | _ => RAlt (rev bs) end, st2) rest2))
  end
with p_more (fuel : nat) (xpath : bool) (st : pst) (s : list N) (acc : list re) : pres (list re * pst) :=
  match fuel with
  | O => PU
  | S f =>
      match s with
      | 124 :: t => pbind (p_branch f xpath st t []) (fun '(b, st1) rest => p_more f xpath st1 rest (b :: acc))
      | _ => PV (acc, st) s
      end
  end
with p_branch (fuel : nat) (xpath : bool) (st : pst) (s : list N) (acc : list re) : pres (re * pst) :=
  match fuel with
  | O => PU
  | S f =>
      match s with
      | [] => PV (RSeq (rev acc), st) s
      | c :: _ =>
          if (c =? 124) || (c =? 41) then PV (RSeq (rev acc), st) s
          else pbind (p_piece f xpath st s) (fun '(p, st1) rest => p_branch f xpath st1 rest (p :: acc))
      end
  end
with p_piece (fuel : nat) (xpath : bool) (st : pst) (s : list N) : pres (re * pst) :=
  match fuel with
  | O => PU
  | S f =>
      pbind (p_atom f xpath st s) (fun '(a, st1) rest =>
        pbind (p_quant rest) (fun q rest2 =>
          match q with
          | None => PV (a, st1) rest2
          | Some (mn, mx) =>
              match rest2 with
              | 63 :: rest3 => if xpath then PV (RQuant a mn mx false, st1) rest3 else PI
              | _ => PV (RQuant a mn mx true, st1) rest2
              end
          end))
  end
with p_atom (fuel : nat) (xpath : bool) (st : pst) (s : list N) : pres (re * pst) :=
  match fuel with
  | O => PU
  | S f =>
      match s with
      | [] => PI
      | c :: t =>
          if c =? 40 then                                  (* '(' *)
            match t with
            | 63 :: 58 :: t2 =>
                if xpath then
                  pbind (p_regexp f xpath st t2) (fun '(r, st1) rest =>
                    match rest with 41 :: rest' => PV (RNc r, st1) rest' | _ => PI end)
                else PI
            | _ =>
                let g := S (opened st) in
                pbind (p_regexp f xpath {| opened := g; closed := closed st |} t) (fun '(r, st1) rest =>
                  match rest with
                  | 41 :: rest' => PV (RGroup g r, {| opened := opened st1; closed := g :: closed st1 |}) rest'
                  | _ => PI
                  end)
            end
          else if c =? 91 then
            pbind (p_class f xpath t) (fun ce rest => PV (RCls ce, st) rest)
          else if c =? 46 then PV (RDot, st) t
          else if c =? 92 then
            pbind (p_escape xpath t) (fun e rest =>
              match e with
              | XChar a => PV (RChar a, st) rest
              | XMulti m => PV (REsc m, st) rest
              | XDigit d =>
                  if xpath then
                    let '(g, rest') := backref_num rest (dval d) (opened st) in
                    if existsb (Nat.eqb g) (closed st) then PV (RBackref g, st) rest' else PI
                  else PI
              end)
          else if c =? 94 then (if xpath then PV (RBol, st) t else PV (RChar c, st) t)
          else if c =? 36 then (if xpath then PV (REol, st) t else PV (RChar c, st) t)
          else if is_quant_start c then PI                 (* quantifier without operand *)
          else if (c =? 125) || (c =? 93) || (c =? 41) || (c =? 124) then PI
          else PV (RChar c, st) t
      end
  end.

Definition spec_parse (xpath : bool) (s : list N) : verdict re :=
  match p_regexp (8 * length s + 16) xpath {| opened := 0; closed := [] |} s with
  | PV (r, _) [] => Valid r
  | PV _ (_ :: _) => Invalid              (* unbalanced ')' or other unconsumed input *)
  | PI => Invalid
  | PU => Unspecified
  end.

(* ---------------------------------------------------------------- flags *)
Fixpoint flags_loop (xpath : bool) (s : list N) (fl : sflags) : verdict sflags :=
  match s with
  | [] => Valid fl
  | c :: t =>
      if c =? 59 then Unspecified                 (* ';' engine-specific suffix: no claim *)
      else if c =? 105 then flags_loop xpath t {| s_i := true; s_m := s_m fl; s_s := s_s fl; s_x := s_x fl; s_q := s_q fl |}
      else if c =? 109 then flags_loop xpath t {| s_i := s_i fl; s_m := true; s_s := s_s fl; s_x := s_x fl; s_q := s_q fl |}
      else if c =? 115 then flags_loop xpath t {| s_i := s_i fl; s_m := s_m fl; s_s := true; s_x := s_x fl; s_q := s_q fl |}
      else if c =? 120 then flags_loop xpath t {| s_i := s_i fl; s_m := s_m fl; s_s := s_s fl; s_x := true; s_q := s_q fl |}
      else if c =? 113 then
        if xpath then flags_loop xpath t {| s_i := s_i fl; s_m := s_m fl; s_s := s_s fl; s_x := s_x fl; s_q := true |}
        else Invalid
      else Invalid
  end.
Definition spec_flags (xpath : bool) (s : list N) : verdict sflags :=
  flags_loop xpath s {| s_i := false; s_m := false; s_s := false; s_x := false; s_q := false |}.

(* flag x: remove U+9, U+A, U+D, U+20 outside character class expressions *)
Definition is_ws (c : N) : bool := (c =? 9) || (c =? 10) || (c =? 13) || (c =? 32).
Fixpoint spec_strip (s : list N) (depth : nat) (esc : bool) : list N :=
  match s with
  | [] => []
  | c :: t =>
      if Nat.eqb depth 0 && is_ws c then spec_strip t depth esc          (* removed, wherever it stands *)
      else if esc then c :: spec_strip t depth false                     (* escaped: never a bracket *)
      else if c =? 92 then c :: spec_strip t depth true
      else if c =? 91 then c :: spec_strip t (S depth) false
      else if c =? 93 then c :: spec_strip t (Nat.pred depth) false
      else c :: spec_strip t depth false
  end.
