(* Abstract syntax of XSD 1.1 / XPath 3.1 regular expressions (the specification side). *)
From RX Require Import Base.Prelude.

Inductive cesc :=
| Es | ES | Ei | EI | Ec | EC | Ed | ED | Ew | EW           (* multi-character escapes *)
| ECat (neg : bool) (name : list N)                        (* \p{L} \P{Lu} *)
| EBlock (neg : bool) (name : list N).                     (* \p{IsGreek} *)

Inductive citem := IChar (c : N) | IRange (lo hi : N) | IEsc (e : cesc).
Inductive cexpr := CGroup (neg : bool) (items : list citem) (sub : option cexpr).

Inductive re :=
| RChar (c : N)                        (* a normal character or a single-character escape *)
| RDot
| RCls (ce : cexpr)
| REsc (e : cesc)
| RBol | REol
| RBackref (g : nat)
| RGroup (g : nat) (r : re)            (* capturing group, numbered by its opening parenthesis *)
| RNc (r : re)                         (* (?: ) *)
| RSeq (rs : list re)
| RAlt (rs : list re)
| RQuant (r : re) (mn : N) (mx : option N) (greedy : bool).

Record sflags := { s_i : bool; s_m : bool; s_s : bool; s_x : bool; s_q : bool }.

(* three-valued outcome of the grammar (DESIGN.md §3.2): Unspecified = fine print on which no
   claim is made *)
Inductive verdict (A : Type) := Valid (a : A) | Invalid | Unspecified.
Arguments Valid {A} a.
Arguments Invalid {A}.
Arguments Unspecified {A}.

Fixpoint re_size (r : re) : nat :=
  match r with
  | RGroup _ r' | RNc r' | RQuant r' _ _ _ => S (re_size r')
  | RSeq rs | RAlt rs => S (fold_right (fun x acc => re_size x + acc) 0 rs)
  | _ => 1
  end.

Fixpoint has_backref (r : re) : bool :=
  match r with
  | RBackref _ => true
  | RGroup _ r' | RNc r' | RQuant r' _ _ _ => has_backref r'
  | RSeq rs | RAlt rs => existsb has_backref rs
  | _ => false
  end.

Fixpoint count_groups (r : re) : nat :=
  match r with
  | RGroup _ r' => S (count_groups r')
  | RNc r' | RQuant r' _ _ _ => count_groups r'
  | RSeq rs | RAlt rs => fold_right (fun x acc => count_groups x + acc) 0 rs
  | _ => 0
  end.
