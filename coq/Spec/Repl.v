(* The replacement-string grammar of fn:replace as property C15 states it, on lists. *)
From RX Require Import Base.Prelude.

Inductive item := Lit (c : N) | Grp (g : nat).
Inductive parsed := PItems (its : list item) | PInvalid | PFuel.

Section Repl.
Variable maxc : nat.       (* number of capturing groups of the regex *)

(* the longest run of further digits that keeps the number <= maxc *)
Fixpoint take_digits (g : nat) (l : list N) : nat * list N :=
  match l with
  | d :: t => if is_digit d && Nat.leb (g * 10 + dval d) maxc then take_digits (g * 10 + dval d) t else (g, l)
  | [] => (g, [])
  end.

Definition cons_item (it : item) (x : parsed) : parsed :=
  match x with PItems its => PItems (it :: its) | y => y end.

Fixpoint parse_repl_f (fuel : nat) (l : list N) : parsed :=
  match fuel with
  | O => PFuel
  | S f =>
      match l with
      | [] => PItems []
      | c :: t =>
          if N.eqb c 92 then                       (* backslash: only \\ and \$ *)
            match t with
            | [] => PInvalid
            | c2 :: t2 => if N.eqb c2 92 || N.eqb c2 36 then cons_item (Lit c2) (parse_repl_f f t2) else PInvalid
            end
          else if N.eqb c 36 then                  (* dollar: must be followed by a digit *)
            match t with
            | [] => PInvalid
            | d :: t2 =>
                if negb (is_digit d) then PInvalid
                else if Nat.leb maxc 9 then cons_item (Grp (dval d)) (parse_repl_f f t2)
                else cons_item (Grp (fst (take_digits (dval d) t2)))
                               (parse_repl_f f (snd (take_digits (dval d) t2)))
            end
          else cons_item (Lit c) (parse_repl_f f t)
      end
  end.
Definition parse_repl (l : list N) : parsed := parse_repl_f (S (length l)) l.

(* $N with N beyond the groups, or a group that did not participate, contributes nothing *)
Definition render (cap : nat -> option (list N)) (its : list item) : list N :=
  flat_map (fun it => match it with
                      | Lit c => [c]
                      | Grp g => if Nat.leb g maxc then match cap g with Some t => t | None => [] end else []
                      end) its.
End Repl.

(* a replacement without $ and \ stands for itself *)
Definition plain (r : list N) : bool := forallb (fun c => negb (N.eqb c 92) && negb (N.eqb c 36)) r.
