(* Specification semantics.
   [ends]  : order-free set semantics ("the language the pattern denotes"): the set of end
             positions of matches of r starting at i; back-reference-free patterns.
   [R]     : ordered-choice list-of-successes with capture environments and back-references.
   Both are total functions; quantifier bounds above [bound_cap] are outside the executable spec. *)
From RX Require Import Base.Prelude Base.InvList Spec.Syntax Spec.Parse Spec.CharSet.

Definition bound_cap : N := 64%N.

Fixpoint bounds_ok (r : re) : bool :=
  match r with
  | RGroup _ r' | RNc r' => bounds_ok r'
  | RSeq rs | RAlt rs => forallb bounds_ok rs
  | RQuant r' mn mx _ =>
      bounds_ok r' && N.leb mn bound_cap
      && match mx with Some m => N.leb m bound_cap || N.leb umax m | None => true end
  | _ => true
  end.

(* sorted duplicate-free lists of positions *)
Fixpoint insert (x : nat) (l : list nat) : list nat :=
  match l with
  | [] => [x]
  | y :: t => if Nat.ltb x y then x :: l else if Nat.eqb x y then l else y :: insert x t
  end.
Definition set_union (a b : list nat) : list nat := fold_right insert b a.
Definition subset (a b : list nat) : bool := forallb (fun x => existsb (Nat.eqb x) b) a.

Section Sem.
Variable fl : sflags.
Variable s : list N.
Let n := length s.

Definition char_at (i : nat) : option N := nth_error s i.
Definition is_lf (i : nat) : bool := match char_at i with Some c => N.eqb c 10 | None => false end.
(* C12: ^ at offset 0, and with m immediately after every newline that is not the last character *)
Definition bol_at (i : nat) : bool :=
  Nat.eqb i 0 || (s_m fl && Nat.ltb 0 i && is_lf (i - 1) && Nat.ltb i n).
(* $ at the end, and with m immediately before every newline *)
Definition eol_at (i : nat) : bool := Nat.eqb i n || (s_m fl && is_lf i).
Definition dot_mem (c : N) : bool := s_s fl || negb (N.eqb c 10 || N.eqb c 13).

Definition one_char (p : N -> bool) (i : nat) : list nat :=
  match char_at i with Some c => if p c then [S i] else [] | None => [] end.

(* iterate a set transformer: [mn] mandatory rounds, then up to [extra] more, stopping when a
   round adds nothing new (the transformer distributes over union, so nothing new can follow) *)
Definition step_set (step : nat -> list nat) (a : list nat) : list nat :=
  fold_right (fun p acc => set_union (step p) acc) [] a.
Fixpoint rounds (step : nat -> list nat) (k : nat) (a : list nat) : list nat :=
  match k with O => a | S k' => match a with [] => [] | _ => rounds step k' (step_set step a) end end.
Fixpoint saturate (step : nat -> list nat) (fuel : nat) (frontier u : list nat) : list nat :=
  match fuel with
  | O => u
  | S f => let nx := step_set step frontier in
           if subset nx u then u else saturate step f nx (set_union nx u)
  end.
Definition quant_ends (step : nat -> list nat) (mn : N) (mx : option N) (i : nat) : list nat :=
  let a := rounds step (N.to_nat mn) [i] in
  let extra := match mx with
               | Some m => N.to_nat (N.min (m - mn) (N.of_nat (n + 2)))
               | None => n + 2
               end in
  saturate step extra a a.

Fixpoint ends (r : re) (i : nat) : list nat :=
  match r with
  | RChar c => one_char (lit_eq (s_i fl) c) i
  | RDot => one_char dot_mem i
  | RCls ce => one_char (class_mem (s_i fl) ce) i
  | REsc e => one_char (esc_mem e) i
  | RBol => if bol_at i then [i] else []
  | REol => if eol_at i then [i] else []
  | RBackref _ => []
  | RGroup _ r' | RNc r' => ends r' i
  | RSeq rs =>
      (fix go (l : list re) (a : list nat) : list nat :=
         match l with
         | [] => a
         | x :: t => go t (step_set (ends x) a)
         end) rs [i]
  | RAlt rs =>
      (fix go (l : list re) : list nat :=
         match l with [] => [] | x :: t => set_union (ends x i) (go t) end) rs
  | RQuant r' mn mx _ => quant_ends (ends r') mn mx i
  end.

(* membership of s[i..j) in the language, and "some substring belongs to the language" *)
Definition in_lang (r : re) (i j : nat) : bool := existsb (Nat.eqb j) (ends r i).
Definition spec_is_match (r : re) : bool := existsb (fun i => match ends r i with [] => false | _ => true end) (seq 0 (S n)).

(* ---------------------------------------------------------------- ordered choice with captures *)
Definition env := list (nat * (nat * nat)).          (* most recent binding first *)
Fixpoint lookup (g : nat) (e : env) : option (nat * nat) :=
  match e with [] => None | (g', sp) :: t => if Nat.eqb g g' then Some sp else lookup g t end.

(* does s[a..b) occur at position i (compared like literals) *)
Definition copy_at (a b i : nat) : bool :=
  Nat.leb (i + (b - a)) n
  && list_eqb (lit_eq (s_i fl)) (firstn (b - a) (skipn a s)) (firstn (b - a) (skipn i s)).

Definition one_charR (p : N -> bool) (i : nat) (e : env) : list (nat * env) :=
  match char_at i with Some c => if p c then [(S i, e)] else [] | None => [] end.

Definition mx_allows (k : nat) (mx : option N) : bool :=
  match mx with Some m => N.ltb (N.of_nat k) m | None => true end.

(* quantifier loop: k iterations done.  An iteration that consumes nothing ends the loop (and may
   stand for any number of further empty iterations, so it satisfies a pending minimum). *)
Fixpoint quantR (body : nat -> env -> list (nat * env)) (mn : N) (mx : option N) (greedy : bool)
         (fuel : nat) (k : nat) (i : nat) (e : env) : list (nat * env) :=
  match fuel with
  | O => []
  | S f =>
      let stop := if N.leb mn (N.of_nat k) then [(i, e)] else [] in
      let more :=
        if mx_allows k mx then
          flat_map (fun je => let '(j, e') := je in
                              if Nat.eqb j i then [(j, e')]
                              else quantR body mn mx greedy f (S k) j e') (body i e)
        else [] in
      if greedy then more ++ stop else stop ++ more
  end.

Fixpoint R (r : re) (i : nat) (e : env) : list (nat * env) :=
  match r with
  | RChar c => one_charR (lit_eq (s_i fl) c) i e
  | RDot => one_charR dot_mem i e
  | RCls ce => one_charR (class_mem (s_i fl) ce) i e
  | REsc x => one_charR (esc_mem x) i e
  | RBol => if bol_at i then [(i, e)] else []
  | REol => if eol_at i then [(i, e)] else []
  | RBackref g =>
      match lookup g e with
      | None => [(i, e)]                                   (* a group that did not participate: empty *)
      | Some (a, b) => if copy_at a b i then [(i + (b - a), e)] else []
      end
  | RGroup g r' => map (fun je => (fst je, (g, (i, fst je)) :: snd je)) (R r' i e)
  | RNc r' => R r' i e
  | RSeq rs =>
      (fix go (l : list re) (i : nat) (e : env) : list (nat * env) :=
         match l with
         | [] => [(i, e)]
         | x :: t => flat_map (fun je => go t (fst je) (snd je)) (R x i e)
         end) rs i e
  | RAlt rs =>
      (fix go (l : list re) : list (nat * env) :=
         match l with [] => [] | x :: t => R x i e ++ go t end) rs
  | RQuant r' mn mx greedy => quantR (R r') mn mx greedy (n + 2) 0 i e
  end.

(* the selected match at or after pos: leftmost start, first result in priority order *)
Fixpoint first_match (r : re) (fuel pos : nat) : option (nat * nat * env) :=
  match fuel with
  | O => None
  | S f =>
      if Nat.ltb n pos then None
      else match R r pos [] with
           | (j, e) :: _ => Some (pos, j, e)
           | [] => first_match r f (S pos)
           end
  end.
Fixpoint spans_from (r : re) (fuel pos : nat) : list (nat * nat * env) :=
  match fuel with
  | O => []
  | S f =>
      match first_match r (n + 2) pos with
      | Some (i, j, e) => (i, j, e) :: (if Nat.ltb pos n then spans_from r f (if Nat.eqb j i then S j else j) else [])
      | None => []
      end
  end.
(* the spans replace / tokenize / analyze are driven by: scanning stops at the end of the input *)
Definition spec_spans (r : re) : list (nat * nat * env) :=
  filter (fun x => Nat.ltb (fst (fst x)) n || Nat.eqb n 0) (spans_from r (n + 2) 0).
Definition spec_is_match_R (r : re) : bool :=
  match first_match r (n + 2) 0 with Some _ => true | None => false end.
End Sem.

(* no quantifier is applied to a body that can match the empty string (checked on the empty input
   and by a syntactic approximation: the class on which Perl, PCRE, Java and JavaScript agree) *)
Fixpoint nullable_syn (r : re) : bool :=
  match r with
  | RChar _ | RDot | RCls _ | REsc _ => false
  | RBol | REol | RBackref _ => true
  | RGroup _ r' | RNc r' => nullable_syn r'
  | RSeq rs => forallb nullable_syn rs
  | RAlt rs => existsb nullable_syn rs
  | RQuant r' mn _ _ => N.eqb mn 0 || nullable_syn r'
  end.
Fixpoint strict_ok (r : re) : bool :=
  match r with
  | RGroup _ r' | RNc r' => strict_ok r'
  | RSeq rs | RAlt rs => forallb strict_ok rs
  | RQuant r' _ _ _ => strict_ok r' && negb (nullable_syn r')
  | _ => true
  end.
