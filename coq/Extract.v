(* Extraction of the executable model (and, later, the spec oracles) to OCaml.
   ExtrOcamlBasic only: bool, option, unit, list, prod, sumbool, sumor map to OCaml's;
   nat, positive, N, Z stay Coq inductives. *)
Require Extraction.
Require Import ExtrOcamlBasic.
From RX Require Import Base.Prelude Base.InvList Model.Case Model.Op Model.Engine Model.Matcher
     Model.Compiler Model.Api Model.Run Spec.Repl
     Spec.Syntax Spec.Parse Spec.CharSet Spec.Sem Spec.Api Spec.Classes.
Extraction "model.ml" regex_new is_match replace_all run_tokenize run_analyze mem
  parse_repl render spec_compile spec_is_match spec_is_match_R spec_spans spec_nullable
  has_backref bounds_ok strict_ok count_groups class_mem esc_mem lookup weak_valid single_class_mem
  k_nested_quant k_counted_zero_width k_group_backtrack.
