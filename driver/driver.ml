(* Model side of the correspondence check: reads the same case lines as the Rust harness and
   prints the same canonical result lines, computed by the extracted Coq model. *)
open Model

let rec pos_of_int (i : int) : positive =
  if i = 1 then XH else if i land 1 = 0 then XO (pos_of_int (i lsr 1)) else XI (pos_of_int (i lsr 1))
let n_of_int (i : int) : n = if i = 0 then N0 else Npos (pos_of_int i)
let rec int_of_pos = function XH -> 1 | XO p -> 2 * int_of_pos p | XI p -> 2 * int_of_pos p + 1
let int_of_n = function N0 -> 0 | Npos p -> int_of_pos p
let rec int_of_nat = function O -> 0 | S k -> 1 + int_of_nat k

let split_on c s = String.split_on_char c s

let dec (s : string) : n list =
  if s = "-" then [] else List.map (fun h -> n_of_int (int_of_string ("0x" ^ h))) (split_on '.' s)

let enc (l : n list) : string =
  if l = [] then "-" else String.concat "." (List.map (fun c -> Printf.sprintf "%x" (int_of_n c)) l)

let errk = function
  | EInternal -> "E:Internal" | EInvalidFlags -> "E:InvalidFlags" | ESyntax -> "E:Syntax"
  | EMatchesEmpty -> "E:MatchesEmptyString" | EInvalidRepl -> "E:InvalidReplacementString"

let rec entry b = function
  | MStr s -> Buffer.add_string b "S("; Buffer.add_string b (enc s); Buffer.add_char b ')'
  | MGrp (nr, v) ->
      Buffer.add_string b (Printf.sprintf "G%d(" (int_of_nat nr));
      List.iter (entry b) v; Buffer.add_char b ')'

let run_apis (b : Buffer.t) (pfx : string) (re : regex) input repl (apis : string) =
  String.iter (fun api ->
    match api with
    | 'm' ->
        let r = match is_match re input with
          | Ok true -> "1" | Ok false -> "0" | Err e -> errk e | Panic _ -> "PANIC" | Out -> "HANG" in
        Buffer.add_string b (Printf.sprintf "\t%sM=%s" pfx r)
    | 'r' ->
        let r = match replace_all re input repl with
          | Ok s -> "ok:" ^ enc s | Err e -> errk e | Panic _ -> "PANIC" | Out -> "HANG" in
        Buffer.add_string b (Printf.sprintf "\t%sR=%s" pfx r)
    | 't' ->
        let r = match run_tokenize re input with
          | Err e -> errk e | Panic _ -> "PANIC" | Out -> "HANG"
          | Ok (toks, tl) ->
              let body = String.concat "|" (List.map enc toks) in
              (match tl with
               | TDone -> "ok:[" ^ body ^ "]"
               | TInf -> "ok:[" ^ body ^ "]!INF"
               | TPanic -> "ok:[" ^ body ^ "]!PANIC"
               | TOut -> "ok:[" ^ body ^ "]!HANG") in
        Buffer.add_string b (Printf.sprintf "\t%sT=%s" pfx r)
    | 'a' ->
        let r = match run_analyze re input with
          | Err e -> errk e | Panic _ -> "PANIC" | Out -> "HANG"
          | Ok (es, tl) ->
              let bb = Buffer.create 64 in
              Buffer.add_string bb "ok:";
              List.iter (function
                | ANon s -> Buffer.add_string bb "N("; Buffer.add_string bb (enc s); Buffer.add_char bb ')'
                | AMatch v -> Buffer.add_string bb "M("; List.iter (entry bb) v; Buffer.add_char bb ')') es;
              (match tl with
               | TDone -> () | TInf -> Buffer.add_string bb "!INF"
               | TPanic -> Buffer.add_string bb "!PANIC" | TOut -> Buffer.add_string bb "!HANG");
              Buffer.contents bb in
        Buffer.add_string b (Printf.sprintf "\t%sA=%s" pfx r)
    | _ -> ()) apis

let run_case (line : string) : string =
  match split_on '\t' line with
  | id :: dialect :: flags :: pattern :: input :: repl :: apis :: _ ->
      let b = Buffer.create 128 in
      Buffer.add_string b id;
      let xpath = (dialect = "xpath") in
      let flags = dec flags and pattern = dec pattern and input = dec input and repl = dec repl in
      let one pfx unopt =
        match regex_new unopt xpath pattern flags with
        | Err e -> Buffer.add_string b (Printf.sprintf "\t%sC=%s" pfx (errk e))
        | Panic _ -> Buffer.add_string b (Printf.sprintf "\t%sC=PANIC" pfx)
        | Out -> Buffer.add_string b (Printf.sprintf "\t%sC=HANG" pfx)
        | Ok re ->
            Buffer.add_string b (Printf.sprintf "\t%sC=ok" pfx);
            run_apis b pfx re input repl apis in
      one "" false;
      if String.contains apis 'u' then one "u" true;
      Buffer.contents b
  | _ -> failwith ("bad case line: " ^ line)

let () =
  match Array.to_list Sys.argv with
  | _ :: "run" :: rest ->
      let skip = (match rest with k :: _ -> int_of_string k | [] -> 0) in
      (try
         for _ = 1 to skip do ignore (input_line stdin) done;
         while true do
           let line = input_line stdin in
           if line <> "" then begin
             (* progress marker first, so that the orchestrator's watchdog sees which case is slow *)
             (match String.index_opt line '\t' with
              | Some k -> print_string ("@" ^ String.sub line 0 k ^ "\n"); flush stdout
              | None -> ());
             print_endline (run_case line)
           end
         done
       with End_of_file -> ())
  | _ :: "mem" :: _ ->
      (* class membership by the model: stdin lines "id \t dialect \t flags \t pattern \t points";
         compiles the pattern and reports which points match it as a whole-input match of "^(?:P)$"
         through the model's own is_match (callers pass the anchored pattern) *)
      (try
         while true do
           let line = input_line stdin in
           if line <> "" then begin
             match split_on '\t' line with
             | id :: dialect :: flags :: pattern :: points :: _ ->
                 (match regex_new false (dialect = "xpath") (dec pattern) (dec flags) with
                  | Ok re ->
                      let pts = if points = "all"
                                then List.filter (fun cp -> cp < 0xD800 || cp > 0xDFFF) (List.init 0x110000 (fun i -> i))
                                else List.map (fun h -> int_of_string ("0x" ^ h)) (split_on '.' points) in
                      let b = Buffer.create 64 in
                      Buffer.add_string b id; Buffer.add_string b "\tok";
                      let run = ref None in
                      let flush () = match !run with
                        | Some (a, z) -> Buffer.add_string b (Printf.sprintf " %x-%x" a z); run := None
                        | None -> () in
                      List.iter (fun cp ->
                        let m = (match is_match re [n_of_int cp] with Ok true -> true | _ -> false) in
                        if m then
                          (match !run with
                           | Some (a, z) when z + 1 = cp || (z = 0xD7FF && cp = 0xE000) -> run := Some (a, cp)
                           | Some _ -> flush (); run := Some (cp, cp)
                           | None -> run := Some (cp, cp))
                        else flush ()) pts;
                      flush ();
                      print_endline (Buffer.contents b)
                  | Err ESyntax -> print_endline (id ^ "\tE:Syntax")
                  | Err EInvalidFlags -> print_endline (id ^ "\tE:InvalidFlags")
                  | Err _ -> print_endline (id ^ "\tE:Other")
                  | _ -> print_endline (id ^ "\tPANIC"))
             | _ -> failwith "bad mem line"
           end
         done
       with End_of_file -> ())
  | _ :: "spec" :: rest ->
      (* spec oracles, one call per line: id \t fn \t args... *)
      let rec nat_of_int i = if i <= 0 then O else S (nat_of_int (i - 1)) in
      let skip = (match rest with k :: _ -> int_of_string k | [] -> 0) in
      (try
         for _ = 1 to skip do ignore (input_line stdin) done;
         while true do
           let line = input_line stdin in
           if line <> "" then begin
             (match String.index_opt line '\t' with
              | Some k -> print_string ("@" ^ String.sub line 0 k ^ "\n"); flush stdout
              | None -> ());
             match split_on '\t' line with
             | id :: "expand" :: maxc :: repl :: caps :: _ ->
                 let caps = Array.of_list (List.map (fun c -> if c = "~" then None else Some (dec c))
                                             (split_on '|' caps)) in
                 let cap g = let i = int_of_nat g in if i < Array.length caps then caps.(i) else None in
                 let maxc = nat_of_int (int_of_string maxc) in
                 (match parse_repl maxc (dec repl) with
                  | PItems its -> print_endline (id ^ "\tok:" ^ enc (render maxc cap its))
                  | PInvalid -> print_endline (id ^ "\tinvalid")
                  | PFuel -> print_endline (id ^ "\tfuel"))
             | id :: "match" :: dialect :: flags :: pattern :: input :: _ ->
                 (* the specification's view of (dialect, flags, pattern) on one input *)
                 let b = Buffer.create 128 in
                 Buffer.add_string b id;
                 (match spec_compile (dialect = "xpath") (dec flags) (dec pattern) with
                  | Invalid -> Buffer.add_string b "\tV=invalid"
                  | Unspecified -> Buffer.add_string b "\tV=unspec"
                  | Valid (fl, r) ->
                      let ng = int_of_nat (count_groups r) in
                      let bf = not (has_backref r) and bok = bounds_ok r in
                      Buffer.add_string b (Printf.sprintf "\tV=valid\tbf=%d\tbok=%d\tstrict=%d\tng=%d\tk1=%d\tk2=%d\tk3=%d"
                        (if bf then 1 else 0) (if bok then 1 else 0) (if strict_ok r then 1 else 0) ng
                        (if k_nested_quant r then 1 else 0) (if k_counted_zero_width r then 1 else 0)
                        (if k_group_backtrack r then 1 else 0));
                      if bok then begin
                        let inp = dec input in
                        Buffer.add_string b (Printf.sprintf "\tnullable=%d" (if spec_nullable fl r then 1 else 0));
                        if bf then
                          Buffer.add_string b (Printf.sprintf "\tL=%d" (if spec_is_match fl inp r then 1 else 0));
                        if not bf then
                          Buffer.add_string b (Printf.sprintf "\tRM=%d" (if spec_is_match_R fl inp r then 1 else 0));
                        (* the ordered-choice reference is claimed (and computed) only on the strict class *)
                        let spans = if strict_ok r then spec_spans fl inp r else [] in
                        let sp = List.map (fun ((i, j), e) ->
                          let gs = List.init ng (fun g ->
                            match lookup (nat_of_int (g + 1)) e with
                            | Some (a, z) -> Printf.sprintf "%d-%d" (int_of_nat a) (int_of_nat z)
                            | None -> "~") in
                          Printf.sprintf "%d-%d:%s" (int_of_nat i) (int_of_nat j) (String.concat "," gs)) spans in
                        Buffer.add_string b ("\tSP=" ^ String.concat ";" sp)
                      end);
                 print_endline (Buffer.contents b)
             | id :: "weak" :: dialect :: flags :: pattern :: input :: spans :: _ ->
                 (* spans: "i-j;i-j" as reported by the code; is the weak clause of C02 satisfied? *)
                 (match spec_compile (dialect = "xpath") (dec flags) (dec pattern) with
                  | Valid (fl, r) when bounds_ok r ->
                      let sp = if spans = "-" then [] else
                        List.map (fun x -> match split_on '-' x with
                          | [a; z] -> (nat_of_int (int_of_string a), nat_of_int (int_of_string z))
                          | _ -> failwith "span") (split_on ';' spans) in
                      print_endline (id ^ "\t" ^ (if weak_valid fl (dec input) r sp O then "ok" else "bad"))
                  | _ -> print_endline (id ^ "\tskip"))
             | id :: "clsmem" :: dialect :: flags :: pattern :: points :: _ ->
                 (match spec_compile (dialect = "xpath") (dec flags) (dec pattern) with
                  | Valid (fl, r) ->
                      let pts = if points = "all"
                                then List.filter (fun cp -> cp < 0xD800 || cp > 0xDFFF) (List.init 0x110000 (fun i -> i))
                                else List.map (fun h -> int_of_string ("0x" ^ h)) (split_on '.' points) in
                      let b = Buffer.create 64 in
                      Buffer.add_string b id; Buffer.add_string b "\tok";
                      let run = ref None in
                      let flush () = match !run with
                        | Some (a, z) -> Buffer.add_string b (Printf.sprintf " %x-%x" a z); run := None
                        | None -> () in
                      let bad = ref false in
                      List.iter (fun cp ->
                        match single_class_mem fl r (n_of_int cp) with
                        | None -> bad := true
                        | Some m ->
                          if m then
                            (match !run with
                             | Some (a, z) when z + 1 = cp || (z = 0xD7FF && cp = 0xE000) -> run := Some (a, cp)
                             | Some _ -> flush (); run := Some (cp, cp)
                             | None -> run := Some (cp, cp))
                          else flush ()) pts;
                      flush ();
                      print_endline (if !bad then id ^ "\tnot-a-class" else Buffer.contents b)
                  | Invalid -> print_endline (id ^ "\tinvalid")
                  | Unspecified -> print_endline (id ^ "\tunspec"))
             | id :: fn :: _ -> print_endline (id ^ "\tunknown-fn:" ^ fn)
             | _ -> failwith "bad spec line"
           end
         done
       with End_of_file -> ())
  | _ -> prerr_endline "usage: driver run|mem|spec"; exit 2
