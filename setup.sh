#!/bin/sh
# Build the framework from files on disk only (offline): Rust harness against /repo's working tree,
# generated tables, the Coq development (full .vo build), extraction, OCaml driver.
set -e
cd "$(dirname "$0")"
export CARGO_NET_OFFLINE=true
python3 - <<'PY'
import sys, os
sys.path.insert(0, os.path.join(os.getcwd(), "lib"))
import build
r = build.ensure_built()
print("setup: build ok in %.0fs; coq files that failed: %s" % (r["build_s"], r["coq_failed"] or "none"))
if r["coq_failed"] or r.get("translator_error"):
    print(open(r["log"]).read()[-3000:])
    sys.exit(1)
PY
